"""C04 bounded layer: vendor text <-> config tree round trip for every vendor of annet's registry.

For every vendor v and every enumerated tree t of v's well-formed domain (ordered trees of rows; rows are printable words
separated by single blanks that contain none of v's syntax delimiters and do not start with a comment mark):
  roundtrip : parse_to_tree(fmt_v.join(t), fmt_v.split) == t     (same rows, same nesting, same order)
  fixpoint  : s = fmt_v.join(t);  fmt_v.join(parse_to_tree(s, fmt_v.split)) == s
  join-text : (brace vendors) fmt_v.join(t) is literally the brace text of t as the reference renderer below writes it
  device    : a device-style text of t written by an independent reference renderer (this file, from the syntax description
              of the vendor family: 1-blank indentation with '!'/'#' separator lines, braces with ';',
              the Nokia `configure { }` wrapper, RouterOS `/path` sections) parses to t, and re-rendering the parsed config
              with fmt_v.join and parsing again gives the same tree.
The expectation is always the enumerated tree itself (or, for the fixed points, the first text / first parse): nothing is
computed with the code under test.  parse_to_tree is called the way annet.gen / annet.api call it (default comments).

Failure keys: bounded:C04:<vendor>:<roundtrip|fixpoint|device-text|device-fixpoint>[:<class>] where <class> names the kind
of tree when it uses vendor keyword rows (cisco address-family closed by its exit-address-family row, huawei xpl, iosxr rpl) or, for
RouterOS, sections nested in sections.  Outside the domain by decision of the lead: a cisco address-family block without its
exit row, a childless top level RouterOS row, device texts with end-of-line remarks or /* */ annotations."""
import hashlib
import json
import random
from collections import OrderedDict as odict
from functools import lru_cache

from bounded.common import setup_annet

setup_annet()

from annet.annlib import tabparser  # noqa: E402
from annet.vendors import registry_connector  # noqa: E402

VENDORS = ["arista", "aruba", "b4com", "cisco", "h3c", "huawei", "iosxr", "juniper", "nexus", "nokia", "optixtrans", "pc",
           "ribbon", "routeros"]
BRACES = ("juniper", "ribbon", "nokia")
INDENT = ("arista", "aruba", "b4com", "cisco", "h3c", "huawei", "iosxr", "nexus", "optixtrans", "pc")

# rows every vendor has to carry unchanged
GENERIC = ["a", "b c", "no d e", "ip address 10.0.0.1/24", 'description "x-y z"', "undo f", "set g=1 h=!k", "p_1:2 [ q r ]",
           "vlan 10,20-30", "peer 2001:db8::1 as-number 65000", "x.y", "-z +w", "user@host $1 (2) q?", "описание тест"]
# '#', '{', '}', ';' are only delimiters of the brace family
INDENT_EXTRA = ["m#n !o", "banner {x}; y"]
ROS_SECTIONS = ["user", "group", "ip", "firewall", "nat", "system", "logging", "action", "interface", "gre", "list", "member",
                "address", "snmp"]
ROS_LEAVES = ["set read name=read policy=local,!ftp skin=default", 'add address="" comment="x y" disabled=no', "add",
              "set accounting=yes interim-update=0s", "add name=n1 policy=read,test", "set a=1", "add chain=input action=drop",
              "set [ find default=yes ] disabled=no", "add list=l1 interface=e1", "set contact=me@x", "print", "add b=2 c=3",
              "set d=4", "add e=5"]

_fmt = {}


def formatter(vendor):
    if vendor not in _fmt:
        _fmt[vendor] = registry_connector.get()[vendor].make_formatter()
    return _fmt[vendor]


def parse(vendor, text):
    f = formatter(vendor)
    return tabparser.parse_to_tree(text=text, splitter=f.split)


# ===== trees
def to_tree(lst):
    return odict((row, to_tree(ch)) for row, ch in lst)


def to_list(t):
    return [[row, to_list(ch)] for row, ch in t.items()]


def depth_of(lst):
    return 0 if not lst else 1 + max(depth_of(ch) for _, ch in lst)


def size_of(lst):
    return sum(1 + size_of(ch) for _, ch in lst)


# ===== shapes: ordered forests, a tree is the forest of its children
@lru_cache(None)
def forests(d, nmax, w):
    """all ordered forests of <= w trees, depth <= d, <= nmax nodes: list of (forest, size), deterministic order"""
    out = [((), 0)]
    if d == 0 or nmax == 0:
        return out
    trees = [((f,), s + 1) for f, s in forests(d - 1, nmax - 1, w)]
    level = [((), 0)]
    for _ in range(w):
        nxt = []
        for pre, ps in level:
            for (t,), ts in trees:
                if ps + ts <= nmax:
                    nxt.append((pre + (t,), ps + ts))
        out.extend(nxt)
        level = nxt
    return out


def random_shape(rnd, d, w, budget):
    """-> forest with <= budget[0] nodes"""
    out = []
    for _ in range(rnd.randint(1, w)):
        if budget[0] <= 0:
            break
        budget[0] -= 1
        out.append(random_shape(rnd, d - 1, w, budget) if d > 1 and rnd.random() < 0.6 else ())
    return tuple(out)


# ===== labelling
def alphabet(vendor):
    if vendor in INDENT:
        return GENERIC + INDENT_EXTRA
    return GENERIC


def _pick(alpha, n):
    return alpha[n % len(alpha)] + ("" if n < len(alpha) else " %d" % (n // len(alpha)))


def _keyword(vendor, cls, i, j, d, has_children):
    """row of the vendor keyword class for a node (preorder i, sibling j, depth d)"""
    if cls.startswith("address-family"):
        return "address-family ipv%d unicast" % (4 + 2 * (i % 2)) + ("" if i < 2 else " vrf V%d" % i)
    if cls == "xpl":
        if has_children:
            if d == 0:
                return ["xpl route-filter RF%d", "xpl ip-prefix-list PL%d", "xpl community-list CL%d"][j % 3] % i
            return ["if ip route-destination in P%d then" % i, "elseif community matches-any C%d then" % i, "else"][j % 3]
        return ["apply local-preference %d" % i, "rsa peer-public-key K%d" % i, "approve"][j % 3]
    if cls == "rpl":
        if has_children:
            if d == 0:
                return ["route-policy RP%d", "prefix-set PS%d", "community-set CS%d"][j % 3] % i
            return ["if destination in P%d then" % i, "elseif community matches-any C%d then" % i, "else"][j % 3]
        return ["set community C%d additive" % i, "10.%d.0.0/16 le 32," % i, "pass"][j % 3]
    raise ValueError(cls)


KEYWORD_CLASSES = {
    # for cisco `address-family ...` opens a block that `exit-address-family` closes: in the well-formed domain the block
    # always carries its exit row
    "cisco": ["address-family"],
    "huawei": ["xpl"],
    "h3c": ["xpl"],
    "iosxr": ["rpl"],
}


# ----- special tokens of each vendor's syntax, collected from the formatter classes (policy terminators the split filters,
# block exit words, keywords that open specially closed blocks, comment / annotation / block marks).  A row of the domain may
# CONTAIN, START WITH or END WITH such a token inside a longer ordinary word or as one word of a longer row: it is then an
# ordinary row (only the bare token line is syntax) and has to survive the round trip - as a leaf and as a block header.
_MARKS = ["#", "!"]                                     # parse_to_tree's comment marks: a row may not START with them
TOKENS = {
    "huawei": ["end-list", "endif", "end-filter", "quit", "return", "xpl"] + _MARKS,
    "h3c": ["end-list", "endif", "end-filter", "quit", "return", "xpl"] + _MARKS,
    "iosxr": ["end-set", "endif", "end-policy", "exit", "route-policy"] + _MARKS,
    "cisco": ["exit", "exit-address-family", "address-family"] + _MARKS,
    "arista": ["exit"] + _MARKS, "aruba": ["exit"] + _MARKS, "b4com": ["exit"] + _MARKS, "nexus": ["exit"] + _MARKS,
    "optixtrans": ["quit"] + _MARKS, "pc": ["exit"] + _MARKS,
    "juniper": ["{", "}", ";", "##", "/*", "*/", "exit", "#"],
    "ribbon": ["{", "}", ";", "##", "/*", "*/", "exit", "#"],
    "nokia": ["{", "}", ";", "##", "/*", "*/", "configure", "#"],
    "routeros": ["/", "#"],
}
TOKEN_NAMES = {"#": "hash", "!": "bang", "{": "lbrace", "}": "rbrace", ";": "semicolon", "##": "hash2", "/*": "annot-open",
               "*/": "annot-close", "/": "slash"}
FORMS = ("contains", "starts", "ends")


def token_forms(vendor, token):
    """the positions in which the token may sit in a row of the vendor's domain"""
    if token in _MARKS or token in ("##", "/*", "/"):
        return ("contains", "ends")          # a row that starts with a comment / annotation / path mark IS that syntax
    if token in ("{", "}", ";"):
        return ("contains",)                 # at the end of a line they are the brace syntax itself
    if token == "*/":
        return ("contains", "starts", "ends")
    return FORMS


def token_row(token, form, i, glued):
    """a row with the token inside a longer word (glued) or as one word of a longer row; i keeps sibling rows distinct"""
    if form == "ends":
        return ("description%d link-to-back%s" if glued else "service-policy%d front %s") % (i, token)
    if form == "starts":
        return ("%s-x%d v" if glued else "%s now%d") % (token, i)
    return ("a%sb%d c" if glued else "set%d %s value") % ((token, i) if glued else (i, token))


def token_schemes(vendor):
    out = []
    for t, token in enumerate(TOKENS[vendor]):
        for form in token_forms(vendor, token):
            out += ["T:%s:%d:%d" % (form, t, o) for o in range(3)]
    return out


def schemes(vendor):
    out = ["A0", "A5", "B"]
    for cls in KEYWORD_CLASSES.get(vendor, ()):
        out += ["K:%s:%d" % (cls, o) for o in range(3)]
    return out


def label(shape, vendor, scheme):
    """shape (forest of forests) -> list tree [[row, children], ...] of the vendor's domain"""
    counter = [0]
    tform, ttoken, toff = None, None, None
    if scheme.startswith("T:"):
        _, tform, t, toff = scheme.split(":")
        ttoken, toff = TOKENS[vendor][int(t)], int(toff)
    if vendor == "routeros":
        off = 5 if scheme == "A5" else 0

        def walk_ros(forest, d):
            out = []
            for j, ch in enumerate(forest):
                i = counter[0]
                counter[0] += 1
                n = j if scheme == "B" else i + off
                if ch or d == 0:
                    row = _pick(ROS_SECTIONS, n).replace(" ", "")      # a section name is one word
                elif tform is not None and i % 3 == toff:
                    row = ("add comment%d=x%sy" if tform == "contains" else "set name%d=x%s") % (i, ttoken)
                else:
                    row = _pick(ROS_LEAVES, n)
                out.append([row, walk_ros(ch, d + 1)])
            return out
        return walk_ros(shape, 0)

    alpha = alphabet(vendor)
    kcls, koff = None, None
    off = 0
    if scheme.startswith("K:"):
        _, kcls, koff = scheme.split(":")
        koff = int(koff)
    elif scheme == "A5":
        off = 5

    def walk(forest, d):
        out = []
        for j, ch in enumerate(forest):
            i = counter[0]
            counter[0] += 1
            if tform is not None and i % 3 == toff:
                # cisco: a whole-word `address-family ...` row opens a block that needs its exit row (keyword labelling), so
                # only the glued form (`address-family-x2 v`) is an ordinary row here
                row = token_row(ttoken, tform, i, glued=(i // 3) % 2 == 0 or (ttoken == "address-family" and tform == "starts"))
                sub = walk(ch, d + 1)
            elif kcls is not None and i % 3 == koff:
                row = _keyword(vendor, kcls, i, j, d, bool(ch))
                sub = walk(ch, d + 1)
                if kcls == "address-family":
                    sub.append(["exit-address-family", []])
            else:
                row = _pick(alpha, j if scheme == "B" else i + off)
                sub = walk(ch, d + 1)
            out.append([row, sub])
        return out
    return walk(shape, 0)


def tree_class(vendor, lst, scheme):
    if scheme.startswith("K:"):
        return scheme.split(":")[1]
    if vendor == "routeros":
        def nested(l, d):
            # a section (node with children) below another section
            return any(ch and (d >= 1 or nested(ch, d + 1)) for _, ch in l)
        if nested(lst, 0):
            return "nested-sections"
    if scheme.startswith("T:"):
        _, form, t, _o = scheme.split(":")
        token = TOKENS[vendor][int(t)]
        return "token-%s-%s" % (form, TOKEN_NAMES.get(token, token))
    return ""


# ===== independent device-style renderer (reference for the parse side)
DEVICE_VARIANTS = {}
for _v in INDENT:
    DEVICE_VARIANTS[_v] = ("plain", "separators")
DEVICE_VARIANTS.update(juniper=("plain",), ribbon=("plain",),
                       nokia=("plain", "configure-wrapper"), routeros=("plain", "header"))


def ref_render(lst, vendor, variant):
    lines = []
    if vendor in INDENT:
        sep = "#" if vendor in ("huawei", "h3c") else "!"
        marks = variant == "separators"
        if marks:
            lines.append(sep + " device header")

        def walk(l, d):
            for row, ch in l:
                lines.append(" " * d + row)
                walk(ch, d + 1)
                if marks and d == 0:
                    lines.append(sep)                      # separator line between top level blocks
                elif marks and ch and sep == "!":
                    lines.append(" " * d + "!")            # indented remark closing a block (IOS-XR style)
        walk(lst, 0)
    elif vendor in BRACES:
        semi = "" if vendor == "nokia" else ";"
        base = 1 if variant == "configure-wrapper" else 0
        if variant != "plain":
            lines.append("# header remark")
        if base:
            lines.append("configure {")

        def walkb(l, d):
            for row, ch in l:
                if ch:
                    lines.append("    " * d + row + " {")
                    walkb(ch, d + 1)
                    lines.append("    " * d + "}")
                else:
                    lines.append("    " * d + row + semi)
        walkb(lst, base)
        if base:
            lines.append("}")
            lines.append("persistent-indices {")
            lines.append('    description "maintained by the system"')
            lines.append("}")
    else:  # routeros: `/path to section` then the rows of that section
        if variant == "header":
            lines.append("# by RouterOS 6.45.7")
            lines.append("#")

        def walkr(l, path):
            header = False                                 # is "/path" the section the next command row lands in?
            for row, ch in l:
                if ch:
                    header = False
                    walkr(ch, path + [row])                # a section prints no header of its own for its sub-sections
                elif not path:
                    header = False
                    lines.append("/" + row)                # empty top level section
                else:
                    if not header:
                        lines.append("/" + " ".join(path))
                        header = True
                    lines.append(row)
        walkr(lst, [])
    return "\n".join(lines)


# ===== the checks
def _ends_with_annot_close(vendor, scheme):
    if not scheme.startswith("T:ends:"):
        return False
    return TOKENS[vendor][int(scheme.split(":")[2])] == "*/"


def check_case(vendor, lst, scheme="", checks=("roundtrip", "fixpoint", "device"), only_variant=None):
    """-> list of (check name[:device variant], ok, expected, actual)"""
    out = []
    f = formatter(vendor)
    t = to_tree(lst)
    if "roundtrip" in checks or "fixpoint" in checks:
        try:
            text = f.join(t)
        except Exception as e:  # pylint: disable=broad-except
            text = None
            out.append(("roundtrip", False, lst, "join raised %r" % (e,)))
        if text is not None:
            try:
                back = parse(vendor, text)
                err = None
            except Exception as e:  # pylint: disable=broad-except
                back, err = None, "%s: %s" % (type(e).__name__, e)
            # (a row that ends with `*/` is written without ';' - the property says nothing about the ';', so the literal text
            # comparison is not made for that labelling)
            if "roundtrip" in checks and vendor in BRACES and not _ends_with_annot_close(vendor, scheme):
                # braces, ';' and the 4-blank indentation are the vendor's syntax: the text itself is fixed by the tree
                out.append(("join-text", text == ref_render(lst, vendor, "plain"), ref_render(lst, vendor, "plain"), text))
            if "roundtrip" in checks:
                got = to_list(back) if err is None else err
                out.append(("roundtrip", got == lst, lst, dict(text=text, parsed=got)))
            if "fixpoint" in checks and not ("lazy" in checks and out and out[-1][0] == "roundtrip" and out[-1][1]):
                # ("lazy": an equal tree renders to the equal text, so the fixed point only needs evaluation after a mismatch)
                if err is None:
                    try:
                        again = f.join(back)
                    except Exception as e:  # pylint: disable=broad-except
                        again = "join raised %r" % (e,)
                else:
                    again = err
                out.append(("fixpoint", again == text, text, again))
    if "device" in checks and lst:
        for variant in DEVICE_VARIANTS[vendor]:
            if only_variant and variant != only_variant:
                continue
            vcls = "" if variant == "plain" else ":" + variant
            text = ref_render(lst, vendor, variant)
            try:
                p = parse(vendor, text)
                got = to_list(p)
            except Exception as e:  # pylint: disable=broad-except
                out.append(("device-text" + vcls, False, lst, dict(text=text, parsed="%s: %s" % (type(e).__name__, e))))
                continue
            out.append(("device-text" + vcls, got == lst, lst, dict(text=text, parsed=got)))
            try:
                again = to_list(parse(vendor, f.join(p)))
            except Exception as e:  # pylint: disable=broad-except
                again = "%s: %s" % (type(e).__name__, e)
            out.append(("device-fixpoint" + vcls, again == got, got, dict(text=text, reparsed=again)))
    return out


def _bounds(tier):
    if tier == "quick":
        return dict(depth=3, width=3, nodes=11, full3=0, nrandom=3000, tnodes=5)
    return dict(depth=5, width=3, nodes=11, full3=22, nrandom=60000, tnodes=7)


def in_domain(vendor, shape):
    """RouterOS: section words, then leaf rows - a childless top level row is neither"""
    return vendor != "routeros" or all(t for t in shape)


def cases(tier, seed):
    """yield (vendor, scheme, shape, with_device) lazily; the consumer labels only its own share"""
    b = _bounds(tier)
    for shape, _size in forests(b["depth"], b["nodes"], b["width"]):
        for vendor in VENDORS:
            if not in_domain(vendor, shape):
                continue
            for scheme in schemes(vendor):
                yield vendor, scheme, shape, scheme in ("A0", "B")
    # special tokens inside ordinary rows: every (token, position) of the vendor at every third node of every small shape
    for shape, _size in forests(3, b["tnodes"], b["width"]):
        if not shape:
            continue
        for vendor in VENDORS:
            if not in_domain(vendor, shape):
                continue
            for scheme in token_schemes(vendor):
                yield vendor, scheme, shape, False
    if b["full3"]:
        # shapes of depth <= 3 with <= 3 rows per level above the node cap, up to full3 nodes (all 621436 shapes up to 39 nodes
        # cost ~45 cpu minutes): all labellings up to the quick tier's cap (so that thorough covers quick), one labelling beyond
        q = _bounds("quick")["nodes"]
        for shape, size in forests(3, b["full3"], 3):
            if size <= b["nodes"]:
                continue
            for vendor in VENDORS:
                if not in_domain(vendor, shape):
                    continue
                if size <= q:
                    for scheme in schemes(vendor):
                        yield vendor, scheme, shape, scheme in ("A0", "B")
                else:
                    yield vendor, "A0", shape, None
    rnd = random.Random(seed * 7919 + 4)
    for n in range(b["nrandom"]):
        shape = random_shape(rnd, rnd.randint(2, 6), rnd.randint(2, 5), [rnd.randint(4, 40)])
        vendor = VENDORS[n % len(VENDORS)]
        if not in_domain(vendor, shape):
            shape = tuple(t if t else ((),) for t in shape)     # RouterOS: give every top level section a row
        sch = schemes(vendor) + token_schemes(vendor)
        yield vendor, sch[rnd.randrange(len(sch))], shape, True


def run(tier="quick", seed=0, part=0, nparts=1):
    ev = 0
    nontrivial = set()
    failures = []
    per_key = {}
    samples = []
    i = 0
    for vendor, scheme, shape, with_device in cases(tier, seed):
        i += 1
        if i % nparts != part:
            continue
        lst = label(shape, vendor, scheme)
        if with_device is None:
            checks = ("roundtrip", "fixpoint", "lazy")
        elif with_device and not scheme.startswith(("K:", "T:")):
            checks = ("roundtrip", "fixpoint", "device")
        else:
            checks = ("roundtrip", "fixpoint")
        ev += 1
        if depth_of(lst) >= 2:
            nontrivial.add(hashlib.md5(json.dumps([vendor, lst]).encode()).hexdigest()[:12])
        if part == 0 and len(samples) < 2 and size_of(lst) >= 5 and depth_of(lst) >= 3 and vendor in ("juniper", "iosxr") and scheme != "B":
            samples.append(dict(vendor=vendor, tree=lst, text=formatter(vendor).join(to_tree(lst))))
        cls = tree_class(vendor, lst, scheme)
        for name, ok, exp, got in check_case(vendor, lst, scheme, checks):
            if ok:
                continue
            key = "bounded:C04:%s:%s%s" % (vendor, name, (":" + cls) if cls else "")
            per_key[key] = per_key.get(key, 0) + 1
            if per_key[key] <= 3:
                failures.append(dict(key=key, text=_TEXT[name.split(":")[0]] % vendor,
                                     case=dict(vendor=vendor, tree=lst, check=name, scheme=scheme), expected=exp, actual=got))
    b = _bounds(tier)
    return dict(evaluations=ev, nontrivial=sorted(nontrivial), failures=failures, samples=samples,
                rule="for each of the 14 registry vendors: every ordered tree shape of depth <= %d, <= %d rows per level and <= %d "
                     "nodes%s, labelled from the vendor's safe alphabet in 3 ways (distinct rows, rotated, same rows in every "
                     "block) plus vendor keyword rows at every third node (cisco address-family blocks closed by their exit-address-family row, "
                     "huawei/h3c xpl, iosxr route-policy; on every shape of <= %d nodes: every special token of the vendor's syntax "
                     "(policy terminators, exit words, keywords, comment/annotation/block marks) inside a longer word or as one "
                     "word of a longer row, at the start / middle / end of rows at every third node; RouterOS: section words for inner nodes, command rows for leaves, no childless top level row); "
                     "plus %d seeded random trees (depth <= 6, <= 5 rows per level, <= 40 nodes); each case: join->parse "
                     "round trip, join fixed point, and (for the plain labellings) 1-2 device style texts written by a reference "
                     "renderer (plain, separator lines, configure{} wrapper, /path sections); non-trivial = nesting depth >= 2; distinct by (vendor, tree)"
                     % (b["depth"], b["width"], b["nodes"],
                        (" and every shape of depth <= 3 / <= 3 rows per level up to %d nodes (all labellings up to %d nodes, one "
                         "beyond, there the fixed point is evaluated only after a round trip mismatch)" % (b["full3"], _bounds("quick")["nodes"])) if b["full3"] else "",
                        b["tnodes"], b["nrandom"]),
                bound="depth<=%d, <=%d rows/level, <=%d nodes%s; random to 40 nodes"
                      % (b["depth"], b["width"], b["nodes"], ("; depth<=3 to %d nodes" % b["full3"]) if b["full3"] else ""))


_TEXT = {
    "roundtrip": "parse_to_tree(join(t), split) differs from t for vendor %s",
    "fixpoint": "join(parse(join(t))) differs from join(t) for vendor %s",
    "join-text": "join(t) is not the brace syntax text of t (row {, row;, }, 4 blanks per level) for vendor %s",
    "device-text": "a device style text of t does not parse to t for vendor %s",
    "device-fixpoint": "re-rendering a parsed device text and parsing again changes the tree for vendor %s",
}


def replay(case):
    name = case["check"]
    base, _, variant = name.partition(":")
    checks = ("device",) if base.startswith("device") else (("roundtrip",) if base == "join-text" else (base,))
    res = [r for r in check_case(case["vendor"], case["tree"], case.get("scheme", ""), checks, variant or ("plain" if checks == ("device",) else None))
           if r[0] == name]
    bad = [r for r in res if not r[1]]
    r = bad[0] if bad else res[0]
    return dict(ok=not bad, expected=r[2], actual=r[3])
