"""shared helpers of the bounded layer"""
import hashlib
import json

_done = [False]


def setup_annet():
    """set the connectors annet needs outside its CLI (as tests/annet/conftest.py does)"""
    if _done[0]:
        return
    _done[0] = True
    from annet.hardware import hardware_connector, AnnetHardwareProvider
    from annet.rulebook import rulebook_provider_connector, DefaultRulebookProvider
    try:
        hardware_connector.set(AnnetHardwareProvider)
    except Exception:
        pass
    try:
        rulebook_provider_connector.set(DefaultRulebookProvider)
    except Exception:
        pass


def h(obj):
    return hashlib.md5(json.dumps(obj, sort_keys=True, default=str).encode()).hexdigest()[:12]
