"""C10 bounded layer: generator PROGRAMS turned into real PartialGenerator subclasses (class source is generated and
exec'ed: real `yield`, `with self.block(...)`, `block_if`, `multiblock`), run through the real
annet.generators._run_partial_generator and annet.gen._old_new_per_device with a stub device / context.

Program (json-able) = list of statements:
  ["y", row]                       yield "row"
  ["yt", [tok, ...]]               yield (tok, ...)          tokens: str | int | nested list (a nested tuple, flattened)
  ["ym", [line, ...]]              yield of one multi-line string; a line indented relative to the first is a child row
  ["b", [tok, ...], body]          with self.block(*toks): body          -- emits the block row, body rows are below it
  ["bif", [tok, ...], cond, body]  with self.block_if(*toks[, condition=cond]); cond "default": block entered iff no
                                   token is None or ""; when not entered the body is emitted at the enclosing level
  ["mb", [blk, ...], body]         with self.multiblock(*blks): nested blocks, blk a string or a list of tokens

Oracle (from the C10 statement, coverage decided by bounded/ref_acl.py):
  * the yielded paths of a program = walking the program with a block path (this module, `yielded_paths`);
  * GeneratorError iff some yielded path (every prefix row included) is not covered by that generator's OWN ACL; the
    error (its cause) names such a line; the first generator in run order with an uncovered line fails the run;
  * otherwise AclNotExclusiveError iff for some row of the united output >= 2 generators each have a rule that matches
    the row (at the level reached through the united ACL) and may delete (cant_delete false);
  * otherwise result.new == union of all yielded paths, nothing else (compared as unordered trees).
"""
import logging
import random
import types
from collections import OrderedDict as odict

from bounded.common import setup_annet, h
from bounded import ref_acl
from bounded.ref_acl import plain, paths

K = "bounded:C10:"
VENDOR = "huawei"
NEG = "undo"

ROWS = [
    ["a", "a b", "a c", "interface x", "interface y", "b 5", "undo a b"],
    ["x", "x y", "description foo", "mtu 9000", "undo x"],
    ["p", "p q", "q"],
]


# ===== program -> python source
def _tok_src(t):
    if isinstance(t, list):
        return "(" + "".join(_tok_src(x) + ", " for x in t) + ")"
    return repr(t)


def _body_src(body, ind):
    pad = "    " * ind
    if not body:
        return [pad + "pass"]
    out = []
    for st in body:
        k = st[0]
        if k == "y":
            out.append(pad + "yield %r" % st[1])
        elif k == "yt":
            out.append(pad + "yield (" + "".join(_tok_src(t) + ", " for t in st[1]) + ")")
        elif k == "ym":
            out.append(pad + 'yield """')
            out.extend(pad + "    " + line for line in st[1])
            out.append(pad + '"""')
        elif k == "b":
            out.append(pad + "with self.block(%s):" % ", ".join(_tok_src(t) for t in st[1]))
            out.extend(_body_src(st[2], ind + 1))
        elif k == "bif":
            a = [_tok_src(t) for t in st[1]]
            if st[2] != "default":
                a.append("condition=%r" % st[2])
            out.append(pad + "with self.block_if(%s):" % ", ".join(a))
            out.extend(_body_src(st[3], ind + 1))
        elif k == "mb":
            out.append(pad + "with self.multiblock(%s):" % ", ".join(_tok_src(t) for t in st[1]))
            out.extend(_body_src(st[2], ind + 1))
        else:
            raise ValueError(k)
    return out


ACL_MODES = ("text", "vendor-text", "none", "empty", "missing", "other-vendor")


def eff_acl(g):
    """the ACL text that is in force for the stub (huawei) device"""
    return g["acl"] if g.get("acl_mode", "text") in ("text", "vendor-text") else ""


def class_source(name, program, acl_text, mode="text"):
    """mode: text         acl(device) returns the text, run(device)
             vendor-text  acl_huawei(device) returns the text, run_huawei(device)
             none / empty acl(device) returns None / ""
             missing      no acl method at all
             other-vendor acl_cisco(device) returns the text, run_huawei(device): the ACL was forgotten for this vendor"""
    lines = ["class %s(PartialGenerator):" % name]
    text_lines = ['        return """'] + ["        " + x for x in acl_text.split("\n")] + ['        """']
    run_name = "run"
    if mode == "text":
        lines += ["    def acl(self, device):"] + text_lines
    elif mode == "vendor-text":
        lines += ["    def acl_huawei(self, device):"] + text_lines
        run_name = "run_huawei"
    elif mode == "none":
        lines += ["    def acl(self, device):", "        return None"]
    elif mode == "empty":
        lines += ["    def acl(self, device):", '        return ""']
    elif mode == "missing":
        pass
    elif mode == "other-vendor":
        lines += ["    def acl_cisco(self, device):"] + text_lines
        run_name = "run_huawei"
    else:
        raise ValueError(mode)
    lines += ["    def %s(self, device):" % run_name]
    lines += _body_src(program, 2)
    lines += ["        if False:", "            yield"]
    return "\n".join(lines) + "\n"


# ===== program -> yielded paths (the oracle's reading of the program)
def _flat(toks):
    out = []
    for t in toks:
        if isinstance(t, list):
            out.extend(_flat(t))
        else:
            out.append(str(t))
    return out


def yielded_paths(program, path=()):
    """list of paths in emission order; a block emits its row"""
    res = []
    for st in program:
        k = st[0]
        if k == "y":
            res.append(path + (st[1],))
        elif k == "yt":
            res.append(path + (" ".join(_flat(st[1])),))
        elif k == "ym":
            stack = []   # (indent, path)
            for line in st[1]:
                ind = len(line) - len(line.lstrip(" "))
                while stack and stack[-1][0] >= ind:
                    stack.pop()
                p = (stack[-1][1] if stack else path) + (line.strip(),)
                res.append(p)
                stack.append((ind, p))
        elif k == "b":
            p = path + (" ".join(_flat(st[1])),)
            res.append(p)
            res.extend(yielded_paths(st[2], p))
        elif k == "bif":
            cond = st[2]
            if cond == "default":
                cond = all(t is not None and t != "" for t in st[1])
            if cond:
                p = path + (" ".join(_flat(st[1])),)
                res.append(p)
                res.extend(yielded_paths(st[3], p))
            else:
                res.extend(yielded_paths(st[3], path))
        elif k == "mb":
            p = path
            for blk in st[1]:
                p = p + (" ".join(_flat(blk if isinstance(blk, list) else [blk])),)
                res.append(p)
            res.extend(yielded_paths(st[2], p))
    return res


def tree_of(pths):
    t = odict()
    for p in pths:
        node = t
        for k in p:
            node = node.setdefault(k, odict())
    return t


# ===== enumeration
def _toks(rnd, row):
    w = [int(x) if x.isdigit() else x for x in row.split()]
    # block()/block_if()/multiblock() take plain tokens (only yielded tuples are flattened)
    if rnd.random() < 0.4:
        return [row]
    return w


class _Budget:
    def __init__(self, n):
        self.n = n


def random_body(rnd, depth, budget, level=None):
    """depth = number of enclosing blocks really entered (rows are taken from ROWS[depth])"""
    body = []
    n = rnd.choice([1, 1, 2, 2, 3])
    for _ in range(n):
        if budget.n <= 0:
            break
        budget.n -= 1
        rows = ROWS[min(depth, 2)]
        r = rnd.random()
        can_block = depth <= 1
        if can_block and r < 0.45:
            kind = rnd.choice(["b", "b", "bif", "bif", "mb"])
            row = rnd.choice([x for x in rows if not x.startswith(NEG)])
            if kind == "b":
                body.append(["b", _toks(rnd, row), random_body(rnd, depth + 1, budget)])
            elif kind == "bif":
                mode = rnd.choice(["default", "default-off", True, False])
                toks = _toks(rnd, row)
                if mode == "default-off":
                    toks = toks + [rnd.choice([None, ""])]
                    body.append(["bif", toks, "default", random_body(rnd, depth, budget)])
                elif mode is False:
                    body.append(["bif", toks, False, random_body(rnd, depth, budget)])
                else:
                    body.append(["bif", toks, mode, random_body(rnd, depth + 1, budget)])
            else:
                if depth == 0 and rnd.random() < 0.6:
                    row2 = rnd.choice([x for x in ROWS[1] if not x.startswith(NEG)])
                    blks = [row if rnd.random() < 0.5 else _toks(rnd, row), row2 if rnd.random() < 0.5 else _toks(rnd, row2)]
                    body.append(["mb", blks, random_body(rnd, depth + 2, budget)])
                else:
                    body.append(["mb", [row if rnd.random() < 0.5 else _toks(rnd, row)], random_body(rnd, depth + 1, budget)])
        elif r < 0.65:
            body.append(["y", rnd.choice(rows)])
        elif r < 0.8:
            row = rnd.choice(rows)
            w = [int(x) if x.isdigit() else x for x in row.split()]
            body.append(["yt", [w[0], w[1:]] if len(w) > 2 or (len(w) == 2 and rnd.random() < 0.3) else w])
        else:
            lines = rnd.sample(rows, rnd.choice([2, 2, 3]))
            if depth <= 1 and rnd.random() < 0.5:
                lines = [lines[0], "  " + rnd.choice(ROWS[depth + 1]), lines[1]]
            body.append(["ym", lines])
    return body


def random_program(rnd):
    return random_body(rnd, 0, _Budget(rnd.choice([2, 3, 4, 5, 6, 6])))


def _gen_rule(rnd, row, nested):
    w = row.split()
    r = rnd.random()
    if w[0] == NEG:
        # a delete command: claimed literally, by `undo a *`, or (mostly) through the reverse form of the positive rule
        if r < 0.25:
            pat = row
        elif r < 0.4 and len(w) >= 3:
            pat = " ".join(w[:-1] + ["*"])
        elif r < 0.7 or len(w) < 3:
            pat = " ".join(w[1:])
        else:
            pat = " ".join(w[1:-1] + ["*"])
        par = rnd.choice(["%cant_delete=0", "%cant_delete=0", "", "%cant_delete=1"])
        return pat, par
    if r < 0.45:
        pat = row
    elif r < 0.65 and len(w) >= 2:
        pat = " ".join(w[:-1] + ["*"])
    elif r < 0.8 and len(w) >= 2:
        pat = w[0] + " ~"
    elif r < 0.88:
        pat = w[0]
    elif r < 0.94:
        pat = "*"
    else:
        pat = "~"
    par = rnd.choice(["", "", "", "", "%cant_delete=0", "%cant_delete=0", "%cant_delete=1", "%cant_delete"])
    return pat, par


def derived_acl(rnd, tree, level=0, drop=0.12):
    """ACL lines for the tree of a program's own yields (sometimes leaving a row out, sometimes `~ %global`)"""
    out = []
    for row, ch in tree.items():
        if rnd.random() < drop:
            continue
        if level >= 1 and rnd.random() < 0.2:
            out.append("    " * level + "~ %global")
            continue
        pat, par = _gen_rule(rnd, row, level > 0)
        line = "    " * level + pat + ("  " + par if par else "")
        if line not in out:
            out.append(line)
            out.extend(derived_acl(rnd, ch, level + 1, drop))
        else:
            sub = derived_acl(rnd, ch, level + 1, drop)
            i = out.index(line) + 1
            out[i:i] = sub
    return out


def random_case(rnd):
    n = rnd.choice([1, 2, 2, 3])
    gens = []
    others = []
    prev_aclless = False
    for i in range(n):
        prog = random_program(rnd)
        mode = "text"
        r = rnd.random()
        if r < 0.14:
            # a generator whose ACL is missing / None / "" for this vendor; sometimes it is also silent
            mode = rnd.choice(["none", "empty", "missing", "other-vendor"])
            if rnd.random() < 0.3:
                prog = []
        elif r < 0.24:
            mode = "vendor-text"
        own = tree_of(yielded_paths(prog))
        base = own
        if others and rnd.random() < (0.8 if prev_aclless else 0.3):
            # an ACL that also claims another generator's rows (mostly so when that one has no ACL of its own)
            base = ref_acl.tree_union(own, others[-1] if prev_aclless else rnd.choice(others))
        acl = "\n".join(derived_acl(rnd, base, drop=rnd.choice([0.0, 0.0, 0.1, 0.25])))
        if rnd.random() < 0.1:
            acl += "\n" + rnd.choice(["a ~", "interface *\n    ~", "~ %global", "undo a *", "*", "~"])
        others.append(own)
        prev_aclless = mode in ("none", "empty", "missing", "other-vendor")
        g = dict(name="G%d" % i, program=prog, acl=acl)
        if mode != "text":
            g["acl_mode"] = mode
        gens.append(g)
    return gens


def _aclless_hand():
    """every ACL-less flavour x (yields a line | silent) x (alone | next to a generator whose ACL covers the rows)"""
    out = []
    cover = dict(name="G1", acl="a *  %cant_delete=0\ninterface *\n    ~", program=[["y", "a c"]])
    for mode in ("none", "empty", "missing", "other-vendor"):
        for prog in ([["y", "a b"], ["b", ["interface", "x"], [["y", "mtu 9000"]]]], []):
            g = dict(name="G0", acl="a *\ninterface *\n    ~", program=prog, acl_mode=mode)
            out.append([g])
            out.append([g, cover])
            out.append([dict(cover, name="G0"), dict(g, name="G1")])
    out.append([dict(name="G0", acl="a *\n    x", program=[["b", ["a", "b"], [["y", "x"]]]], acl_mode="vendor-text")])
    return out


HAND = [
    [dict(name="G0", acl="interface *\n    description ~", program=[["b", ["interface", "x"], [["yt", ["description", "foo"]]]]]),
     dict(name="G1", acl="interface *\n    mtu *", program=[["b", ["interface x"], [["yt", ["mtu", 9000]]]]])],
    [dict(name="G0", acl="interface * %cant_delete=0\n    description ~", program=[["b", ["interface", "x"], [["y", "description foo"]]]]),
     dict(name="G1", acl="interface * %cant_delete=0\n    mtu *", program=[["b", ["interface x"], [["yt", ["mtu", 9000]]]]])],
    [dict(name="G0", acl="a ~", program=[["y", "a b"], ["y", "b 5"]])],
    [dict(name="G0", acl="a *\n    x", program=[["mb", ["a b", ["x", "y"]], [["ym", ["p", "q"]]]]])],
    [dict(name="G0", acl="a *\n    x *\n        ~", program=[["mb", ["a b", ["x", "y"]], [["ym", ["p", "q"]]]]])],
    [dict(name="G0", acl="a\n    x\n    ~ %global", program=[["bif", ["a", None], "default", [["y", "a c"], ["ym", ["a b", "  x y", "  mtu 9000", "a"]]]]])],
    # block_if's default condition looks for None / "" only: a falsy token such as the integer 0 opens the block (seeded C10_m7)
    [dict(name="G0", acl="unit *\n    family ~", program=[["bif", ["unit", 0], "default", [["y", "family inet"]]]])],
    [dict(name="G0", acl="interface *\n    unit *\n        family ~\n    mtu *",
          program=[["b", ["interface x"], [["bif", ["unit", 0], "default", [["y", "family inet"]]], ["bif", ["mtu", 0, ""], "default", [["y", "z"]]]]]])],
    [dict(name="G0", acl="interface *", program=[["y", "undo interface x"]])],
] + _aclless_hand()


# ===== the real run
_env = []


class _Storage:
    def flush_perf(self):
        return {}


class _Device:
    """the attributes _old_new_per_device / _run_partial_generator / implicit / InitialConfig read"""
    def __init__(self):
        from annet.annlib.netdev.views.hardware import HardwareView
        self.hw = HardwareView("Huawei CE6870-48S6CQ-EI", "VRP V200R001C00SPC700")
        self.hostname = "stub1"
        self.fqdn = "stub1.example.net"
        self.id = 1
        self.breed = "vrp85"
        self.tags = []
        self.storage = _Storage()

    def is_pc(self):
        return False

    def __hash__(self):
        return 1

    def __eq__(self, other):
        return self is other

    def __repr__(self):
        return "stub1"


def _annet():
    if _env:
        return _env[0]
    setup_annet()
    logging.disable(logging.CRITICAL)
    from annet import gen as agen, generators
    from annet.generators import PartialGenerator, GeneratorError
    from annet.annlib import patching
    dev = _Device()
    args = types.SimpleNamespace(no_acl=False, acl_safe=False, generators_context=None, profile=False, no_acl_exclusive=False,
                                 fail_on_empty_config=False, filter_acl="", filter_ifaces=[], filter_peers=[], filter_policies=[],
                                 required_packages_check=False)
    ctx = agen.OldNewDeviceContext(
        config="empty", args=args, downloaded_files={}, failed_files={}, running={}, failed_running={}, no_new=False,
        stdin={"filter_acl": "", "config": None}, add_annotations=False, add_implicit=False, do_files_download=False,
        gens=agen.DeviceGenerators(partial={dev: []}, ref={dev: []}), fetched_packages={}, failed_packages={}, device_count=1,
        do_print_perf=False)
    _env.append(types.SimpleNamespace(agen=agen, generators=generators, PartialGenerator=PartialGenerator,
                                      GeneratorError=GeneratorError, patching=patching, dev=dev, ctx=ctx))
    return _env[0]


def build(gens):
    env = _annet()
    objs = []
    for g in gens:
        ns = {"PartialGenerator": env.PartialGenerator}
        exec(compile(class_source(g["name"], g["program"], g["acl"], g.get("acl_mode", "text")), "<c10:%s>" % g["name"], "exec"), ns)
        objs.append(ns[g["name"]](env.dev.storage))
    return objs


def _cause_text(e):
    out = [str(e)]
    c = e.__cause__
    while c is not None:
        out.append(str(c))
        c = c.__cause__
    return out


# ===== oracle parts
def own_verdict(g):
    own = tree_of(yielded_paths(g["program"]))
    r = ref_acl.ref_eval(own, ref_acl.parse_acl(eff_acl(g), default_gen=g["name"]), VENDOR)
    return own, r


def united_rules(gens):
    rules = []
    for g in gens:
        rules += ref_acl.parse_acl(eff_acl(g), default_gen=g["name"])
    return ref_acl._unite(rules)


def conflicts(res):
    """paths of rows where >= 2 generators have a matching rule that may delete -> {path: sorted names}"""
    out = odict()
    for p, cands in res.cands.items():
        names = set()
        for c in cands:
            for name, flag in zip(c.rule.gens, c.rule.cant_delete):
                if not flag:
                    names.add(name)
        if len(names) >= 2:
            out[p] = sorted(names)
    return out


def check(gens):
    """-> (failures [(key, text, expected, actual)], info dict)"""
    env = _annet()
    fails = []
    info = dict(ambiguous=False, expect=None)
    verdicts = [own_verdict(g) for g in gens]
    if any(r.ambiguous for (_, r) in verdicts):
        info["ambiguous"] = True
        return fails, info
    first_bad = None
    for g, (own, r) in zip(gens, verdicts):
        if r.uncovered and first_bad is None:
            first_bad = (g, r)
    # ---- clause 1, per generator through _run_partial_generator
    objs = build(gens)
    for g, obj, (own, r) in zip(gens, objs, verdicts):
        run_args = env.generators.GeneratorPartialRunArgs(env.dev, use_acl=True)
        try:
            pr = env.generators._run_partial_generator(obj, run_args)
            err = None
        except env.GeneratorError as e:
            err = e
        except Exception as e:  # noqa
            fails.append((K + "unexpected-exception", "_run_partial_generator(%s) raised %s" % (g["name"], type(e).__name__), None, repr(e)))
            return fails, info
        exp_names = [" / ".join(p) for p in r.uncovered]
        if r.uncovered:
            if err is None:
                fails.append((K + "uncovered-yield-no-generator-error", "%s yields a line its own ACL does not cover, no GeneratorError" % g["name"],
                              "GeneratorError naming one of %r" % exp_names, dict(config=plain(pr.config))))
            elif not any(t in exp_names for t in _cause_text(err)):
                fails.append((K + "generator-error-names-wrong-line", "GeneratorError of %s does not name an uncovered line" % g["name"],
                              "one of %r" % exp_names, _cause_text(err)))
        else:
            if err is not None:
                fails.append((K + "generator-error-for-covered-yields", "every line %s yields is covered by its own ACL, but GeneratorError" % g["name"],
                              "no error", _cause_text(err)))
            else:
                if r.suppressed and plain(pr.config) == plain(r.tree):
                    fails.append((K + "cant_delete-reverse-row-silently-dropped",
                                  "%s yields the reverse form of a cant_delete rule of its own ACL: neither emitted nor an error" % g["name"],
                                  "GeneratorError or the line emitted: %r" % [" / ".join(p) for p in r.suppressed], dict(config=plain(pr.config))))
                elif plain(pr.config) != plain(r.tree):
                    fails.append((K + "partial-config!=own-yields", "result.config of %s is not the tree of its yielded lines" % g["name"],
                                  plain(own), plain(pr.config)))
    # ---- the whole set through _old_new_per_device
    env.ctx.gens.partial[env.dev] = build(gens)
    try:
        res = env.agen._old_new_per_device(env.ctx, env.dev, None)
        act = ("ok", res)
        if res.err is not None:
            act = ("err", res.err)
    except env.GeneratorError as e:
        act = ("generror", e)
    except env.patching.AclNotExclusiveError as e:
        act = ("exclusive", e)
    except Exception as e:  # noqa
        fails.append((K + "unexpected-exception", "_old_new_per_device raised %s" % type(e).__name__, None, repr(e)))
        return fails, info
    if act[0] == "err":
        fails.append((K + "unexpected-exception", "_old_new_per_device returned err", None, repr(act[1])))
        return fails, info
    if first_bad is not None:
        info["expect"] = "generror"
        g, r = first_bad
        exp_names = [" / ".join(p) for p in r.uncovered]
        if act[0] != "generror":
            fails.append((K + "uncovered-yield-no-generator-error", "run: %s yields an uncovered line, the run does not fail with GeneratorError" % g["name"],
                          "GeneratorError naming one of %r" % exp_names, act[0] if act[0] != "ok" else dict(new=plain(act[1].new))))
        elif not any(t in exp_names for t in _cause_text(act[1])):
            fails.append((K + "generator-error-names-wrong-line", "run: GeneratorError does not name an uncovered line of %s" % g["name"],
                          "one of %r" % exp_names, _cause_text(act[1])))
        return fails, info
    if act[0] == "generror":
        fails.append((K + "generator-error-for-covered-yields", "run: every generator's lines are covered by its own ACL, but GeneratorError",
                      "no GeneratorError", _cause_text(act[1])))
        return fails, info
    union = tree_of([p for g in gens for p in yielded_paths(g["program"])])
    own_supp = [p for (_, r) in verdicts for p in r.suppressed]
    if own_supp:
        # already reported per generator; what the united run should do with such lines is not defined further
        info["expect"] = "suppressed"
        return fails, info
    ur = ref_acl.ref_eval(union, united_rules(gens), VENDOR)
    if ur.ambiguous:
        info["ambiguous"] = True
        return fails, info
    conf = conflicts(ur)
    if conf:
        info["expect"] = "exclusive"
        exp = ["'%s', generators: '%s'" % ("/ ".join(p), ", ".join(n)) for p, n in conf.items()]
        if act[0] != "exclusive":
            fails.append((K + "missing-exclusivity-error", ">= 2 generators may delete one generated line, no AclNotExclusiveError",
                          "AclNotExclusiveError for one of %r" % exp, dict(new=plain(act[1].new))))
        else:
            msg = str(act[1])
            ok = False
            for p, n in conf.items():
                if msg.startswith("'%s'," % "/ ".join(p)):
                    got_names = sorted(x.strip() for x in msg.split("generators: '")[-1].rstrip("'").split(","))
                    ok = got_names == n
            if not ok:
                fails.append((K + "exclusivity-error-names-wrong-row", "AclNotExclusiveError does not name a conflicting row and its generators",
                              "one of %r" % exp, msg))
        return fails, info
    if act[0] == "exclusive":
        fails.append((K + "spurious-exclusivity-error", "no line has two generators that may delete it, but AclNotExclusiveError",
                      "no error", str(act[1])))
        return fails, info
    info["expect"] = "union"
    new = act[1].new
    if plain(new) != plain(union):
        lost = [p for p in paths(union) if p not in set(paths(new))]
        if lost and ur.suppressed and all(any(p[:len(s)] == s for s in ur.suppressed) for p in lost) and not [p for p in paths(new) if p not in set(paths(union))]:
            fails.append((K + "cant_delete-reverse-row-silently-dropped",
                          "a yielded line is the reverse form of a cant_delete rule of the united ACL: dropped without error",
                          plain(union), plain(new)))
        else:
            fails.append((K + "new!=union-of-yields", "result.new is not the union of the yielded paths", plain(union), plain(new)))
    return fails, info


def n_cases(tier):
    return 20000 if tier == "quick" else 250000


def cases(tier, seed, part, nparts):
    """(index, case) of this part; every random case has its own generator seeded by (seed, index)"""
    for i, gens in enumerate(HAND):
        if i % nparts == part:
            yield i, gens
    for i in range(len(HAND), len(HAND) + n_cases(tier)):
        if i % nparts == part:
            yield i, random_case(random.Random(seed * 10000019 + i))


def run(tier="quick", seed=0, part=0, nparts=1):
    ev = 0
    amb = 0
    nontrivial = set()
    failures = []
    per_key = {}
    samples = []
    expect_counts = {}
    seen = set()
    for i, gens in cases(tier, seed, part, nparts):
        key = h(gens)
        if key in seen:
            continue
        seen.add(key)
        ev += 1
        fs, info = check(gens)
        if info["ambiguous"]:
            amb += 1
        expect_counts[info["expect"]] = expect_counts.get(info["expect"], 0) + 1
        if info["expect"] in ("generror", "exclusive") or (info["expect"] == "union" and len(gens) >= 2):
            nontrivial.add(key)
        if part == 0 and len(samples) < 2 and info["expect"] in ("exclusive", "union") and len(gens) >= 2 and i > len(HAND):
            samples.append(dict(gens=gens, expect=info["expect"]))
        for (k, text, exp, act) in fs:
            per_key[k] = per_key.get(k, 0) + 1
            if per_key[k] <= 3:
                failures.append(dict(key=k, text=text, case=dict(gens=gens), expected=exp, actual=act))
    return dict(
        evaluations=ev, nontrivial=sorted(nontrivial), failures=failures, samples=samples, ambiguous=amb,
        failure_counts=per_key, expect_counts={str(k): v for k, v in expect_counts.items()},
        rule="sets of 1-3 generators; each = a seeded random PROGRAM (<= 6 statements, block depth <= 3 rows: yield str / tuple "
             "(nested tuples, ints) / multi-line string (with an indented child line), block, block_if (default condition with "
             "None/'' token, condition=True/False), multiblock (1-2 blocks)) over rows %r, plus an ACL text derived from the "
             "program's own rows (literal / `*` / `~` / first word / `~ %%global` below the top level, %%cant_delete[=0/1], rows "
             "left out with prob. 0-0.25, sometimes also claiming another generator's rows) -- no %%prio and no %%global on "
             "patterns other than `~` (the known C06 divergences are kept out of this module); ~14%% of the generators have NO ACL in "
             "force for the vendor (acl() returns None / '' / no acl method / only acl_<other vendor>), 30%% of those yield nothing, "
             "and the next generator then usually claims their rows; ~10%% use acl_<vendor>/run_<vendor> methods; %d hand-made "
             "cases first (incl. every ACL-less flavour x yields/silent x alone/beside a covering generator). Each "
             "generator is run alone through _run_partial_generator and the set through _old_new_per_device (stub Huawei CE "
             "device, config='empty'). Cases where the reference matcher finds the governing rule ambiguous (equal-prio "
             "candidates that disagree) are counted in `ambiguous` and skipped. Non-trivial = a GeneratorError or an "
             "exclusivity error is expected, or >= 2 generators are united; distinct by the json of the case" % (ROWS, len(HAND)),
        bound="%d seeded random generator sets (1-3 generators, <= 6 statements, depth <= 3)" % n_cases(tier))


def replay(case):
    fs, info = check(case["gens"])
    if fs:
        return dict(ok=False, key=fs[0][0], expected=fs[0][2], actual=fs[0][3], all=[f[0] for f in fs])
    return dict(ok=True, expected=info["expect"], actual=info["expect"])
