"""shared input generators of the bounded modules c08 / c09 / c20: the vendor table, an independent reader and matcher
for the rulebook language (written from the rulebook documentation: a rule matches a row when the row starts with the
rule's words; `*` is any single word; a trailing `~` is a non-empty rest), small patching rulebooks with random
(old, new) configuration pairs, and the shipped corpus tests/annet/test_patch/*.yaml.

Nothing here computes an expectation by calling the code under test; annet is only used to parse corpus texts into
config trees (input preparation)."""
import os
import random
from collections import OrderedDict as odict

# vendor -> (hardware models exercising every common.apply branch, negation word, formatter family)
# negation words / exit words are pinned here from vendor CLI knowledge, not read from annet.vendors
VENDORS = {
    "huawei": dict(models=["Huawei", "Huawei CE6870", "Huawei NE40E"], neg="undo", fam="huawei"),
    "h3c": dict(models=["H3C"], neg="undo", fam="huawei"),
    "cisco": dict(models=["Cisco"], neg="no", fam="cisco"),
    "iosxr": dict(models=["Cisco ASR"], neg="no", fam="asr"),
    "nexus": dict(models=["Cisco Nexus"], neg="no", fam="exit"),
    "arista": dict(models=["Arista"], neg="no", fam="exit"),
    "aruba": dict(models=["Aruba"], neg="no", fam="exit"),
    "b4com": dict(models=["B4com", "B4com B4T-CS2148P"], neg="no", fam="exit"),
    "pc": dict(models=["PC"], neg="-", fam="none"),
}
# vendors whose patch is a flat list of set/delete commands (not block structured)
FLAT_VENDORS = {"juniper": "Juniper", "nokia": "Nokia", "routeros": "RouterOS", "ribbon": "Ribbon"}
FLAT_NEG = {"juniper": "delete", "nokia": "delete", "routeros": "remove", "ribbon": "delete"}

BLOCK_HW = [(v, m) for v, d in VENDORS.items() for m in d["models"]]


def hw_of(model):
    from annet.annlib.netdev.views.hardware import HardwareView
    return HardwareView(model, None)


# ---------------------------------------------------------------------------------------------------------------------
# independent reader of rulebook texts
class Rule:
    __slots__ = ("line", "tokens", "params", "children", "raw", "dialogs")

    def __init__(self, line, tokens, params, raw):
        self.line = line
        self.tokens = tokens
        self.params = params
        self.children = []
        self.raw = raw
        self.dialogs = []

    def __repr__(self):
        return "Rule(%d,%r,%r,%r)" % (self.line, " ".join(self.tokens), self.params, self.children)


def parse_rules(text):
    """indent-structured rule text -> list of top-level Rule; `%name[=value]` words are parameters;
    `dialog: Q ::: A` child lines are collected into the parent's .dialogs (not rules)"""
    top = []
    stack = []  # (indent, rule)
    for n, raw in enumerate(text.split("\n"), start=1):
        st = raw.strip()
        if not st or st.startswith("#"):
            continue
        ind = len(raw) - len(raw.lstrip(" "))
        words = st.split()
        params = {}
        toks = []
        for w in words:
            if w.startswith("%") and toks:
                k, _, v = w[1:].partition("=")
                params[k] = v if v != "" else "1"
            else:
                toks.append(w)
        while stack and stack[-1][0] >= ind:
            stack.pop()
        if st.startswith("dialog:"):
            q, _, a = st[len("dialog:"):].partition(":::")
            a = " ".join(w for w in a.split() if not w.startswith("%"))
            stack[-1][1].dialogs.append((q.strip(), a.strip()))
            continue
        if st.startswith("ignore:"):
            continue
        r = Rule(n, toks, params, st)
        if stack:
            stack[-1][1].children.append(r)
        else:
            top.append(r)
        stack.append((ind, r))
    return top


def tokens_match(tokens, row):
    words = row.split()
    for i, t in enumerate(tokens):
        if t == "~" and i == len(tokens) - 1:
            return len(words) > i
        if i >= len(words):
            return False
        if t == "*":
            continue
        if t != words[i]:
            return False
    return True


def truthy(v):
    return str(v).lower() in ("1", "true", "yes", "on")


# ---------------------------------------------------------------------------------------------------------------------
# config trees as json-able nested lists  [[row, [children...]], ...]
def to_tree(nested):
    t = odict()
    for row, ch in nested:
        t[row] = to_tree(ch)
    return t


def to_nested(tree):
    return [[k, to_nested(v)] for k, v in tree.items()]


def paths(tree, prefix=()):
    out = []
    for k, v in tree.items():
        out.append(prefix + (k,))
        out.extend(paths(v, prefix + (k,)))
    return out


# ---------------------------------------------------------------------------------------------------------------------
# a small patching rulebook (vendor neutral text; the negation word comes from the vendor at compile time)
R1 = """\
a *
b *
c %logic=common.undo_redo
d *
blk *
    a *
    b *
    c %logic=common.undo_redo
    sub *
        a *
        b *
"""
# the same plus rules used by the deploy stream check (exit variants, force_commit)
R1X = R1 + """\
e * %force_commit
xpl * *
    ~ %global
address-family *
    ~ %global
route-policy *
    ~ %global
rsa peer-public-key *
    ~ %global
"""


def _rand_rows(rnd, depth, p):
    rows = []
    for r in ("a 1", "a 2", "b 1", "b 2"):
        if depth == 2 and r == "b 2":
            continue
        if rnd.random() < p:
            rows.append([r, []])
    if rnd.random() < p:
        rows.append([rnd.choice(["c 1", "c 2"]), []])
    if depth == 0 and rnd.random() < p:
        rows.append(["d 1", []])
    if depth == 0:
        for b in ("blk 1", "blk 2"):
            if rnd.random() < p:
                rows.append([b, _rand_rows(rnd, 1, p)])
    elif depth == 1:
        if rnd.random() < p:
            rows.append(["sub 1", _rand_rows(rnd, 2, p)])
    rnd.shuffle(rows)
    return rows


def rand_pair(rnd, p=0.5):
    """(old, new) nested configs over the alphabet of R1"""
    old = _rand_rows(rnd, 0, p)
    new = _mutate(rnd, old, 0, p)
    return old, new


def _mutate(rnd, rows, depth, p):
    out = []
    for row, ch in rows:
        x = rnd.random()
        if x < 0.3:
            continue                                   # removed
        if ch or row.startswith(("blk", "sub")):
            out.append([row, _mutate(rnd, ch, depth + 1, p) if x < 0.8 else [list(c) for c in _deep(ch)]])
        elif row.startswith("c ") and x < 0.6:
            out.append(["c 2" if row == "c 1" else "c 1", []])
        else:
            out.append([row, []])
    have = {r for r, _ in out}
    for row, ch in _rand_rows(rnd, depth, p * 0.6):
        if row in have or (row.startswith("c ") and any(r.startswith("c ") for r in have)):
            continue
        have.add(row)
        out.insert(rnd.randint(0, len(out)), [row, ch])
    return out


def _deep(ch):
    return [[r, _deep(c)] for r, c in ch]


X_BLOCKS = [
    ["xpl route-filter F", [["if x then", [["apply a", []]]], ["else", [["apply b", []]]]]],
    ["xpl route-filter G", [["if x then", [["apply a", []]]], ["elseif y then", [["apply b", []]]]]],
    ["xpl prefix-set P", [["10.0.0.0 8", []]]],
    ["address-family ipv4", [["neighbor 1", []]]],
    ["route-policy RP", [["if x then", [["pass", []]]]]],
    ["rsa peer-public-key k", [["public-key-code begin", [["0A0B", []]]]]],
    ["e 1", []],
    ["e 2", []],
]


def rand_pair_x(rnd, p=0.5):
    old, new = rand_pair(rnd, p)
    for blk in X_BLOCKS:
        x = rnd.random()
        if x < 0.25:
            new.insert(rnd.randint(0, len(new)), _deep([blk])[0])
        elif x < 0.35:
            old.insert(rnd.randint(0, len(old)), _deep([blk])[0])
        elif x < 0.45 and blk[1]:
            old.insert(rnd.randint(0, len(old)), [blk[0], _deep(blk[1][:1])])
            new.insert(rnd.randint(0, len(new)), _deep([blk])[0])
    return old, new


def compile_rb(vendor, rul_text, order_text="", deploy_text=""):
    from annet.annlib.rbparser.ordering import compile_ordering_text
    from annet.annlib.rbparser.platform import VENDOR_ALIASES
    from annet.rulebook.deploying import compile_deploying_text
    from annet.rulebook.patching import compile_patching_text
    return {
        "patching": compile_patching_text(rul_text, VENDOR_ALIASES.get(vendor, vendor)),
        "ordering": compile_ordering_text(order_text, vendor),
        "deploying": compile_deploying_text(deploy_text, vendor),
    }


def real_patch(hw, rb, old, new, acl=None, do_commit=True):
    """the production pipeline diff -> pre -> patch on config trees"""
    from annet import patching
    diff = patching.make_diff(old, new, rb, [acl] if acl is not None else [])
    pre = patching.make_pre(diff)
    return patching.make_patch(pre=pre, rb=rb, hw=hw, add_comments=False, do_commit=do_commit)


def pt_nested(pt):
    """PatchTree -> [[row, None | [...]], ...]"""
    return [[str(i.row), (None if i.child is None else pt_nested(i.child))] for i in pt.itms]


def pt_build(nested):
    from annet.annlib.patching import PatchTree
    t = PatchTree()
    for row, ch in nested:
        if ch is None:
            t.add(row, {})
        else:
            t.add_block(row, pt_build(ch), {})
    return t


def pt_paths(nested, prefix=()):
    out = []
    for row, ch in nested:
        out.append(prefix + (row,))
        if ch:
            out.extend(pt_paths(ch, prefix + (row,)))
    return out


# ---------------------------------------------------------------------------------------------------------------------
# the shipped corpus
_STUB = {
    "cisco": "Cisco Catalyst", "nexus": "Cisco Nexus", "asr": "Cisco ASR", "iosxr": "Cisco XR", "huawei": "Huawei",
    "huawei ce": "Huawei CE0000", "juniper": "Juniper", "routeros": "RouterOS", "aruba": "Aruba", "arista": "Arista",
    "nokia": "Nokia", "pc": "PC", "ribbon": "Ribbon", "optixtrans": "Huawei DC", "b4com": "B4com", "h3c": "H3C",
}
CORPUS_DIR = None


def corpus_dir():
    import annet
    return os.path.join(os.path.dirname(os.path.dirname(os.path.abspath(annet.__file__))), "tests", "annet", "test_patch")


def _expand_diff(node, sign=0):
    r1, r2 = [], []
    for line, ch in node.items():
        line = line.strip()
        ls = 0
        if line.startswith("-") or line.startswith("+"):
            ls = 1 if line[0] == "+" else -1
            line = line[1:].strip()
        s1, s2 = _expand_diff(ch, ls)
        if ls != 1:
            r1.append([line, s1])
        if ls != -1:
            r2.append([line, s2])
    return r1, r2


_corpus_cache = []


def corpus():
    """-> list of dict(name, model, old, new) (nested configs, implicit rows merged in as tests/annet/test_patch.py does)"""
    if _corpus_cache:
        return _corpus_cache
    import yaml
    from unittest import mock
    from annet import implicit, lib, tabparser
    from annet.vendors import registry_connector
    d = corpus_dir()
    for fname in sorted(os.listdir(d)):
        if not fname.endswith(".yaml"):
            continue
        with open(os.path.join(d, fname)) as f:
            data = yaml.load(f.read(), Loader=yaml.BaseLoader)
        if not isinstance(data, list):
            data = [data]
        for i, sample in enumerate(data, start=1):
            model = _STUB[sample.get("vendor", "huawei").lower()]
            hw = hw_of(model)
            splitter = registry_connector.get().match(hw).make_formatter().split
            if "diff" in sample:
                o, n = _expand_diff(tabparser.parse_to_tree(text=sample["diff"], splitter=splitter))
                old, new = to_tree(o), to_tree(n)
            else:
                old, new = (tabparser.parse_to_tree(text=sample[k], splitter=splitter) for k in ("before", "after"))
            rules = implicit.compile_rules(mock.Mock(hw=hw))
            old = lib.merge_dicts(old, implicit.config(old, rules))
            new = lib.merge_dicts(new, implicit.config(new, rules))
            _corpus_cache.append(dict(name="%s#%d" % (fname, i), model=model, old=to_nested(old), new=to_nested(new)))
    return _corpus_cache


def rng(seed, *salt):
    return random.Random("%s/%s" % (seed, "/".join(str(s) for s in salt)))
