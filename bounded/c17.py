"""C17 bounded layer: implicit defaults never override explicit config and never cause commands alone.

Real code: annet.implicit.compile_rules / implicit.config, annet.annlib.lib.merge_dicts and (for the patch clause) the
shipped rulebooks through make_diff / make_pre / make_patch / formatter.cmd_paths, composed as annet/gen.py does
(old and new completed the same way, then diffed).

Oracle (written from the statement): the completion of t contains every explicit line of t; at each place it has the
default row of a rule iff t has, at that place, no row of the rule's kind (= matching the rule's pattern; the pattern
language -- literal words, `*` one word, `~` one or more words, `*/re/` one word matching re, any other token is a
regex fragment for one whole word, further words may follow -- is implemented HERE, the compiled regexps of annet are
not used, and the default table is read from the text of _implicit_tree by an own reader); nothing else is added; completing twice adds nothing. A default row that is in neither t nor u (and in both
completions) gives no diff entry and no command; dropping those rows from both completions leaves the patch unchanged;
t == u gives an empty patch."""
import itertools
import random
import re
from collections import OrderedDict as odict

from bounded.common import setup_annet, h

# (model, tags): every branch of annet.implicit._implicit_tree
HARDWARE = [
    ("Huawei CE6870", ()), ("Huawei NE40E", ()), ("Huawei S5300", ()), ("Huawei", ()),
    ("Arista DCS-7050", ()),
    ("Cisco Nexus 5596", ()), ("Cisco Nexus 3432", ()), ("Cisco Nexus 9508", ("spine1",)), ("Cisco Nexus 9508", ()),
    ("Cisco Nexus 9316", ()), ("Cisco Nexus N9K-C9364C", ()), ("Cisco Nexus 3132", ()),
    ("Cisco Catalyst 2960", ()), ("Cisco Catalyst 3560", ()), ("Cisco Catalyst 3650", ()), ("Cisco Catalyst 3750", ()),
    ("Cisco Catalyst", ()), ("Cisco ASR 1001", ()),
]

# words tried for the non-literal tokens of block patterns (real-looking names and the degenerate ones)
POOL = ["GigabitEthernet", "XGigabitEthernet", "GigabitEthernet0/0/1", "XGigabitEthernet0/0/1", "Vlan", "Vlan100", "mgmt0", "Ethernet1",
        "Ethernet1/1", "Ethernet1/2/3", "Ethernet2/1", "Loopback0", "port-channel1", "FastEthernet0/1", "65000", "10.0.0.1"]
LAST_WORD = {"mstp": "rstp", "3": "15", "all": "ssh", "1500": "9000", "default": "LIST"}
FOREIGN_CHILD = "description x"


# ---------------------------------------------------------------- the pattern language, independent of annet
def is_literal(tok):
    return re.fullmatch(r"[A-Za-z0-9_\-.:]+", tok) is not None


def matches(pattern, line):
    pt = pattern.split()
    lw = line.split()
    i = 0
    for n, tok in enumerate(pt):
        if tok == "~" and n == len(pt) - 1:
            return len(lw) > i
        if i >= len(lw):
            return False
        w = lw[i]
        if tok == "*":
            pass
        elif tok.startswith("*/") and tok.endswith("/") and len(tok) > 3:
            if re.fullmatch(tok[2:-1], w) is None:
                return False
        elif is_literal(tok):
            if tok != w:
                return False
        else:
            if re.fullmatch(tok, w) is None:
                return False
        i += 1
    return True


def instances(pattern):
    """sample lines for a block pattern: up to 3 that match, up to 2 look-alikes that do not"""
    pt = pattern.split()
    options = []
    for n, tok in enumerate(pt):
        if tok == "~" and n == len(pt) - 1:
            options.append(["0 4"])
        elif tok == "*":
            options.append(["65000" if n else "X1"])
        elif is_literal(tok):
            options.append([tok])
        else:
            options.append(list(POOL))
    good, bad = [], []
    for combo in itertools.product(*options):
        line = " ".join(combo)
        (good if matches(pattern, line) else bad).append(line)
    def closeness(line):
        best = 0
        for g in good:
            n = 0
            while n < min(len(g), len(line)) and g[n] == line[n]:
                n += 1
            best = max(best, n)
        return -best
    return good[:3], sorted(bad, key=closeness)


class Rule:
    def __init__(self, row, typ, children):
        self.row = row
        self.ignore = typ == "ignore"
        self.children = children


def default_text(dev):
    """the raw default table of annet.implicit._implicit_tree(device): its call of the rule-text parser is intercepted so that
    neither annet's parser nor compile_tree stands between the shipped text and the oracle"""
    from annet import implicit
    saved = implicit.parse_text
    implicit.parse_text = lambda text: text
    try:
        out = implicit._implicit_tree(dev)
    finally:
        implicit.parse_text = saved
    if not isinstance(out, str):
        raise RuntimeError("_implicit_tree no longer hands its text to parse_text")
    return out


def read_rules(text):
    """own reader of the default table: one rule per line, nesting by indentation, `#` lines are comments, a leading `!`
    makes the row match-only (it is never added, its children apply under the lines it matches)"""
    root = []
    stack = [(-1, root)]
    for raw in text.split("\n"):
        st = raw.strip()
        if not st or st.startswith("#"):
            continue
        ind = len(raw) - len(raw.lstrip(" \t"))
        row = " ".join(st.split())
        typ = "normal"
        if row.startswith("!"):
            typ = "ignore"
            row = row[1:].strip()
            if not row:
                continue
        while stack[-1][0] >= ind:
            stack.pop()
        r = Rule(row, typ, [])
        stack[-1][1].append(r)
        stack.append((ind, r.children))
    return root


def expected_completion(t, rules):
    """t + implicit(t) by the statement"""
    m = odict((k, copy_tree(v)) for k, v in t.items())
    for r in rules:
        same_kind = [line for line in t if matches(r.row, line)]
        if not r.ignore and not same_kind and r.row not in t:
            m[r.row] = odict()
        for line in same_kind:
            sub = expected_completion(t[line], r.children)
            m[line] = merge_plain(m[line], sub)
    return m


def merge_plain(a, b):
    out = odict((k, copy_tree(v)) for k, v in a.items())
    for k, v in b.items():
        out[k] = merge_plain(out[k], v) if k in out else copy_tree(v)
    return out


def copy_tree(t):
    return odict((k, copy_tree(v)) for k, v in t.items())


def plain(t):
    return {k: plain(v) for k, v in t.items()}


def applicable_defaults(t, rules, path=()):
    """{path: set(default rows of the rules that apply at this explicit place)}"""
    out = {path: set(r.row for r in rules if not r.ignore)}
    for r in rules:
        for line in t:
            if matches(r.row, line):
                for p, s in applicable_defaults(t[line], r.children, path + (line,)).items():
                    out.setdefault(p, set()).update(s)
    for line in t:
        out.setdefault(path + (line,), set())
        for p, s in applicable_defaults(t[line], [], path + (line,)).items():
            out.setdefault(p, set()).update(s)
    return out


# ---------------------------------------------------------------- enumeration of trees over the words of the rules
def neg_word(hwname):
    return "undo" if hwname.startswith("Huawei") else "no"


def row_variants(row, neg):
    """the default row, the opposite setting, the same command with another value, the row with one more word"""
    out = [row]
    ws = row.split()
    if ws[0] == neg:
        out.append(" ".join(ws[1:]))
    else:
        out.append(neg + " " + row)
    if ws[-1] in LAST_WORD and len(ws) > 1:
        out.append(" ".join(ws[:-1] + [LAST_WORD[ws[-1]]]))
    out.append(row + " extra")    # same kind by the pattern language: further words may follow
    return out


def candidates(rules, neg, kc, leaf_block=False):
    """[(row, [alternative subtrees], group)] for one level; rows of one group exclude each other in a well-formed config
    (the values / the negation of one command)"""
    cands = []
    seen = set()
    for gi, r in enumerate(rules):
        if r.ignore or r.children:
            if r.ignore:
                good, bad = instances(r.row)
                rows = good + [b for b in bad if b.split()[0] == r.row.split()[0]][:1]
            else:
                rows = [r.row]
            for row in rows:
                if row in seen:
                    continue
                seen.add(row)
                cands.append((row, trees(r.children, neg, kc, kc, leaf_block=True), ("b", len(cands)) if r.ignore else ("r", gi)))
        if not r.ignore:
            for row in row_variants(r.row, neg):
                if row in seen:
                    continue
                seen.add(row)
                cands.append((row, [odict()], ("r", gi)))
    if leaf_block and FOREIGN_CHILD not in seen:
        cands.append((FOREIGN_CHILD, [odict()], ("f", 0)))
    return cands


def trees(rules, neg, k, kc, leaf_block=False):
    """all trees with <= k rows at this level (<= kc rows at every level below)"""
    cands = candidates(rules, neg, kc, leaf_block)
    out = []
    for n in range(0, k + 1):
        for combo in itertools.combinations(cands, n):
            if len(set(g for (_, _, g) in combo)) < n:
                continue
            for subs in itertools.product(*[alts for (_, alts, _) in combo]):
                out.append(odict((row, copy_tree(sub)) for (row, _, _), sub in zip(combo, subs)))
    return out


def random_tree(rules, neg, rng, depth=0):
    cands = candidates(rules, neg, 1, leaf_block=depth > 0)
    t = odict()
    if not cands:
        return t
    n = rng.choice([0, 1, 2, 3, 3, 4, 5]) if depth == 0 else rng.choice([0, 1, 1, 2, 3])
    groups = set()
    for (row, _, g) in rng.sample(cands, min(n, len(cands))):
        if g in groups:
            continue
        groups.add(g)
        sub = odict()
        for r in rules:
            if (r.ignore or r.children) and (matches(r.row, row) or r.row == row):
                sub = random_tree(r.children, neg, rng, depth + 1)
        t[row] = sub
    return t


def edit_tree(t, rules, neg, rng):
    """u = t with a few rows dropped / added at random places (so that t and u share blocks)"""
    u = copy_tree(t)
    other = random_tree(rules, neg, rng)
    for k in list(u):
        if rng.random() < 0.25:
            del u[k]
        elif u[k] and rng.random() < 0.6:
            for c in list(u[k]):
                if rng.random() < 0.4:
                    del u[k][c]
    for k, v in other.items():
        if k in u:
            if rng.random() < 0.7:
                u[k] = merge_plain(u[k], v)
        elif rng.random() < 0.4:
            u[k] = v
    return well_formed(u, rules, neg)


def well_formed(t, rules, neg):
    """keep the first row of every exclusion group (two values of one command do not coexist in a config)"""
    group = {row: g for (row, _, g) in candidates(rules, neg, 0)}
    out = odict()
    used = set()
    for row, sub in t.items():
        g = group.get(row, ("x", row))
        if g in used:
            continue
        used.add(g)
        crules = [c for r in rules if (r.ignore or r.children) and (matches(r.row, row) or r.row == row) for c in r.children]
        out[row] = well_formed(sub, crules, neg) if sub else odict()
    return out


# ---------------------------------------------------------------- the code under test
class _Dev:
    def __init__(self, hw, tags):
        self.hw = hw
        self.tags = list(tags)
        self.hostname = "dev1"


_ctx = {}


def context(hwi):
    if hwi not in _ctx:
        setup_annet()
        from annet import implicit, rulebook
        from annet.vendors import registry_connector
        from annet.annlib.netdev.views.hardware import HardwareView
        name, tags = HARDWARE[hwi]
        hw = HardwareView(name, None)
        compiled = implicit.compile_rules(_Dev(hw, tags))       # only ever handed back to annet (implicit.config)
        rb = rulebook.get_rulebook(hw)
        fm = registry_connector.get().match(hw).make_formatter(indent="")
        _ctx[hwi] = dict(hw=hw, tags=tags, compiled=compiled, rules=read_rules(default_text(_Dev(hw, tags))), rb=rb, fm=fm,
                         join=registry_connector.get().match(hw).make_formatter().join, neg=neg_word(name))
    return _ctx[hwi]


def complete(t, c):
    from annet import implicit
    from annet.annlib.lib import merge_dicts
    return merge_dicts(t, implicit.config(t, c["compiled"]))


def real_patch(old, new, c):
    from annet import patching
    diff = patching.make_diff(old, new, c["rb"], [])
    pre = patching.make_pre(diff)
    pt = patching.make_patch(pre=pre, rb=c["rb"], hw=c["hw"], add_comments=False)
    return patching.strip_unchanged(diff), [tuple(p) for p in c["fm"].cmd_paths(pt)]


# ---------------------------------------------------------------- checks
def compare_completion(t, m, exp, defaults, prefix="bounded:C17:", note=""):
    """the completion m that annet produced against the completion exp the statement asks for -> [(key, text, expected, actual)]"""
    out = []

    def walk(tt, mm, ee, path):
        for row in tt:
            if row not in mm:
                out.append((prefix + "explicit-line-lost", "explicit row %r at %r is not in the completion%s" % (row, list(path), note),
                            plain(exp), plain(m)))
        for row in mm:
            if row not in ee:
                if row in defaults.get(path, ()):
                    out.append((prefix + "default-added-despite-explicit",
                                "default %r added at %r although a row of its kind is there%s" % (row, list(path), note), plain(exp), plain(m)))
                else:
                    out.append((prefix + "extra-row", "row %r at %r is neither explicit nor an applicable default of this device%s"
                                % (row, list(path), note), plain(exp), plain(m)))
        for row in ee:
            if row not in mm:
                if row not in tt:
                    out.append((prefix + "default-missing", "default %r is not added at %r although no row of its kind is there%s"
                                % (row, list(path), note), plain(exp), plain(m)))
            else:
                walk(tt.get(row, odict()), mm[row], ee[row], path + (row,))
    walk(t, m, exp, ())
    return out


# ---------------------------------------------------------------- naming the cause of a failure (keys of known findings are narrow)
KNOWN_IDEMPOTENCE_CAUSE = "default-block-added-without-its-default-children"
KNOWN_PATCH_RAISE_CAUSE = "too-many-actions-in-common.default"


def idempotence_cause(t, m, m2, rules):
    """why completing the completed tree m gives m2 != m. The one cause with its own name: every row the second completion adds
    is a default child of a default row that the FIRST completion added (that block came without its default children)"""
    added = []
    lost = []

    def walk(a, b, path):
        for row in a:
            if row not in b:
                lost.append(path + (row,))
            else:
                walk(a[row], b[row], path + (row,))
        for row in b:
            if row not in a:
                added.append(path + (row,))
    walk(m, m2, ())
    if lost:
        return "rows-lost"
    if not added:
        return "changed"
    for full in added:
        path, row = full[:-1], full[-1]
        if not path:
            return "adds-root-row"
        # walk down the own reading of the default table along the path
        level_rules = rules
        node_t = t
        parent_added_default = False
        for p in path:
            if node_t is not None and p in node_t:         # an explicit line: the children of the rules it matches apply
                level_rules = [c for r in level_rules if matches(r.row, p) for c in r.children]
                node_t = node_t[p]
                parent_added_default = False
            else:                                           # not explicit: must be a default row the first completion added
                own = [r for r in level_rules if not r.ignore and r.row == p]
                if not own:
                    return "adds-row-under-unexplained-row"
                level_rules = [c for r in own for c in r.children]
                node_t = None
                parent_added_default = True
        if not parent_added_default:
            return "adds-row-under-explicit-line"
        if row not in [r.row for r in level_rules if not r.ignore]:
            return "adds-non-default-row"
    return KNOWN_IDEMPOTENCE_CAUSE


def patch_raise_cause(exc, rules):
    """the known cause: AssertionError `Too many <op> actions for rows [...]` raised by common.default (annet/annlib/rulebook/
    common.py) where the rows are a value-bearing default row and an explicit row; anything else is named after the exception
    type and the raising function"""
    import ast
    import os
    import traceback
    tb = traceback.extract_tb(exc.__traceback__)
    last = tb[-1] if tb else None
    where = "%s.%s" % (os.path.splitext(os.path.basename(last.filename))[0], last.name) if last else "unknown"
    fname = (last.filename if last else "").replace(os.sep, "/")
    if (isinstance(exc, AssertionError) and fname.endswith("annet/annlib/rulebook/common.py") and last.name == "default"
            and str(exc).startswith("Too many ")):
        try:
            rows = ast.literal_eval(str(exc)[str(exc).index("["):])
        except Exception:
            rows = []
        default_rows = set(r.row for r in _all_rules(rules) if not r.ignore)
        if any(r in default_rows for r in rows) and any(r not in default_rows for r in rows):
            return KNOWN_PATCH_RAISE_CAUSE
        return "too-many-actions-in-common.default-without-a-default-row"
    return "%s-in-%s" % (type(exc).__name__, where)


def check_completion(hwi, t):
    """-> list of (key, text, expected, actual)"""
    c = context(hwi)
    m = complete(t, c)
    exp = expected_completion(t, c["rules"])
    out = compare_completion(t, m, exp, applicable_defaults(t, c["rules"]))
    # idempotence
    m2 = complete(m, c)
    if plain(m2) != plain(m):
        out.append(("bounded:C17:not-idempotent:" + idempotence_cause(t, m, m2, c["rules"]), "completing the completed tree changes it",
                    plain(m), plain(m2)))
    return out, m


# ---------------------------------------------------------------- several devices served by one process
# What the default table depends on: annet.implicit._implicit_tree / compile_rules read device.hw and device.tags (nothing
# else). Devices that share the model string but differ in the tags are served one after the other by ONE fresh process
# (a child of this one), in both orders; the expected table of each device comes from an own reading of the default text
# that a separate fresh process, serving only that device, hands out.
SEQUENCE_GROUPS = [
    [("Cisco Nexus 9508", ("spine1",)), ("Cisco Nexus 9508", ())],
    [("Cisco Nexus 9508", ("spine1",)), ("Cisco Nexus 9508", ()), ("Cisco Nexus 9508", ("spine1", "other"))],
]


def _child(payload):
    import json
    import os
    import subprocess
    import sys
    r = subprocess.run([sys.executable, "-m", "bounded.c17", "--child"], input=json.dumps(payload), capture_output=True, text=True,
                       env=dict(os.environ), cwd=os.path.dirname(os.path.dirname(os.path.abspath(__file__))), timeout=600)
    if r.returncode != 0:
        raise RuntimeError("child failed: %s" % r.stderr[-800:])
    return json.loads(r.stdout.splitlines()[-1])


def _child_main():
    """fresh process: {"mode": "text", "device": [model, tags]} -> the default text of the device;
    {"mode": "seq", "devices": [[model, tags], ...], "trees": [t, ...]} -> for every tree, for every device IN ORDER:
    merge_dicts(t, implicit.config(t, implicit.compile_rules(device))) and the same once more on the result"""
    import json
    import sys
    from annet import implicit
    from annet.annlib.lib import merge_dicts
    from annet.annlib.netdev.views.hardware import HardwareView
    req = json.loads(sys.stdin.read())
    if req["mode"] == "text":
        model, tags = req["device"]
        out = default_text(_Dev(HardwareView(model, None), tags))
    else:
        out = []
        for t in req["trees"]:
            row = []
            for (model, tags) in req["devices"]:
                dev = _Dev(HardwareView(model, None), tags)
                tt = _to_odict(t)
                m = merge_dicts(tt, implicit.config(tt, implicit.compile_rules(dev)))
                m2 = merge_dicts(m, implicit.config(m, implicit.compile_rules(dev)))
                row.append([plain(m), plain(m2)])
            out.append(row)
    sys.stdout.write("\n" + json.dumps(out) + "\n")


_dev_rules = {}


def device_rules(model, tags):
    """own reading of the default table of ONE device, text taken from a fresh process that serves only this device"""
    k = (model, tuple(tags))
    if k not in _dev_rules:
        _dev_rules[k] = read_rules(_child(dict(mode="text", device=[model, list(tags)])))
    return _dev_rules[k]


def sequences():
    """every ordered pair of different devices of a group, and the whole group forwards and backwards"""
    out = []
    for g in SEQUENCE_GROUPS:
        cand = [list(x) for x in itertools.permutations(g, 2)] + [list(g), list(reversed(g))]
        for seq in cand:
            j = [[m, list(tg)] for (m, tg) in seq]
            if j not in out:
                out.append(j)
    return out


def sequence_trees(seq, tier):
    """trees over the words of ALL tables of the sequence (the union), so that rows only another device of the sequence has
    defaults for are present"""
    rules = []
    seen = set()
    for (m, tg) in seq:
        for r in device_rules(m, tg):
            if r.row not in seen:
                seen.add(r.row)
                rules.append(r)
    return [x for x in trees(rules, "no", 1, 2 if tier == "quick" else 3)]


def check_sequence(seq, tree_list):
    """-> one result list per tree"""
    res = _child(dict(mode="seq", devices=seq, trees=[plain(t) for t in tree_list]))
    outs = []
    for t, per_dev in zip(tree_list, res):
        out = []
        for n, ((model, tags), (m, m2)) in enumerate(zip(seq, per_dev)):
            rules = device_rules(model, tags)
            note = " (device #%d %s tags=%s, served after %s in one process)" % (n + 1, model, tags, [d for d in seq[:n]] or "nothing")
            out.extend(compare_completion(t, _to_odict(m), expected_completion(t, rules), applicable_defaults(t, rules),
                                          prefix="bounded:C17:seq:", note=note))
            if m2 != m:
                out.append(("bounded:C17:seq:not-idempotent:" + idempotence_cause(t, _to_odict(m), _to_odict(m2), rules),
                            "completing the completed tree changes it" + note, m, m2))
        outs.append(out)
    return outs


def core(row, neg):
    ws = row.split()
    return " ".join(ws[1:]) if ws and ws[0] == neg else " ".join(ws)


def common_defaults(t, u, mt, mu, path=()):
    """{path: [rows]} default rows absent from both t and u and present in both completions, at places explicit in both"""
    out = {}
    rows = [r for r in mt if r in mu and r not in t and r not in u]
    if rows:
        out[path] = rows
    for r in t:
        if r in u and r in mt and r in mu:
            out.update(common_defaults(t[r], u[r], mt[r], mu[r], path + (r,)))
    return out


def drop(tree, cd, path=()):
    out = odict()
    for k, v in tree.items():
        if k in cd.get(path, ()):
            continue
        out[k] = drop(v, cd, path + (k,))
    return out


def at(tree, path):
    for p in path:
        tree = tree.get(p, {})
    return tree


def check_pair(hwi, t, u):
    c = context(hwi)
    out = []
    mt = complete(t, c)
    mu = complete(u, c)
    try:
        diff, cmds = real_patch(mt, mu, c)
    except Exception as e:
        err = "%s: %s" % (type(e).__name__, e)
        try:
            _, raw = real_patch(copy_tree(t), copy_tree(u), c)
        except Exception as e2:
            return [("bounded:C17:raw-patch-exception", "the patch of t and u WITHOUT defaults raises (ill-formed input or an annet defect that "
                     "has nothing to do with defaults)", "a patch", "%s: %s" % (type(e2).__name__, e2))]
        return [("bounded:C17:patch-raises-with-defaults:" + patch_raise_cause(e, c["rules"]), "the patch of (t, u) is fine, the patch of the "
                 "completed trees raises", dict(patch_without_defaults=raw), err)]
    cd = common_defaults(t, u, mt, mu)
    if plain(t) == plain(u) and cmds:
        out.append(("bounded:C17:patch-for-equal-configs", "t == u but the patch of the completed trees is not empty", [], cmds))

    def walk(d, path):
        for item in d:
            if item[1] in cd.get(path, ()):
                out.append(("bounded:C17:diff-entry-for-common-default",
                            "diff entry %s %r at %r for a default row that is in neither t nor u" % (item[0], item[1], list(path)),
                            "no entry", _diff_j(diff)))
            walk(item[2], path + (item[1],))
    walk(diff, ())
    for p in cmds:
        par, cmd = p[:-1], p[-1]
        for d in cd.get(par, ()):
            if core(cmd, c["neg"]) == core(d, c["neg"]):
                tr, ur = set(at(t, par)), set(at(u, par))
                if not any(core(r, c["neg"]) == core(d, c["neg"]) for r in tr ^ ur):
                    out.append(("bounded:C17:command-for-common-default",
                                "command %r at %r names the default row %r that is in neither t nor u (and no explicit row of that "
                                "command differs)" % (cmd, list(par), d), "no such command", cmds))
    if cd and not out:
        try:
            _, cmds2 = real_patch(drop(mt, cd), drop(mu, cd), c)
        except Exception as e:
            cmds2 = "%s: %s" % (type(e).__name__, e)
        if cmds2 != cmds:
            out.append(("bounded:C17:patch-depends-on-common-defaults",
                        "the patch changes when the default rows absent from t and u are dropped from both completions: %r"
                        % {"/".join(k): v for k, v in cd.items()}, cmds2, cmds))
    return out


# ---------------------------------------------------------------- the composition of annet.gen itself
class _Storage:
    def flush_perf(self):
        return {}


class _GenDev:
    """the attributes _old_new_per_device / run_partial_generators / implicit / _diff_and_patch read"""
    def __init__(self, hw, tags):
        self.hw = hw
        self.tags = list(tags)
        self.hostname = "stub1"
        self.fqdn = "stub1.example.net"
        self.id = 1
        self.breed = "stub"
        self.storage = _Storage()

    def is_pc(self):
        return False

    def __hash__(self):
        return 1

    def __eq__(self, other):
        return self is other

    def __repr__(self):
        return "stub1"


_gen_cls = []


def _tree_generator(storage, tree):
    """a trivial PartialGenerator whose output is the tree u"""
    if not _gen_cls:
        from annet.generators import PartialGenerator

        class TreeGen(PartialGenerator):
            def __init__(self, storage, tree):
                super().__init__(storage)
                self.tree = tree

            def acl(self, device):
                return ""

            def run(self, device):
                yield from self._emit(self.tree)

            def _emit(self, t):
                for row, ch in t.items():
                    if ch:
                        with self.block(row):
                            yield from self._emit(ch)
                    else:
                        yield row
        _gen_cls.append(TreeGen)
    return _gen_cls[0](storage, tree)


def real_gen_patch(c, t, u, no_new):
    """device text t, generator output u -> annet.gen._old_new_per_device (implicit on, no ACL) -> api._diff_and_patch"""
    import logging
    import types
    from annet import gen as agen, api
    logging.disable(logging.CRITICAL)
    dev = _GenDev(c["hw"], c["tags"])
    args = types.SimpleNamespace(no_acl=True, acl_safe=False, generators_context=None, profile=False, no_acl_exclusive=False,
                                 fail_on_empty_config=False, filter_acl="", filter_ifaces=[], filter_peers=[], filter_policies=[],
                                 required_packages_check=False)
    ctx = agen.OldNewDeviceContext(
        config="running", args=args, downloaded_files={}, failed_files={}, running={dev: c["join"](t)}, failed_running={},
        no_new=no_new, stdin={"filter_acl": "", "config": None}, add_annotations=False, add_implicit=True, do_files_download=False,
        gens=agen.DeviceGenerators(partial={dev: [_tree_generator(dev.storage, u)]}, ref={dev: []}), fetched_packages={},
        failed_packages={}, device_count=1, do_print_perf=False)
    res = agen._old_new_per_device(ctx, dev, None)
    if res.err is not None:
        raise res.err
    diff, patch = api._diff_and_patch(dev, res.old, res.new, res.acl_rules, res.filter_acl_rules, False)
    return res.old, res.new, diff, [tuple(p) for p in c["fm"].cmd_paths(patch)]


def check_gen(hwi, t, u, no_new):
    """t = what the device text holds, u = what the generators yield (nothing in clear mode, no_new=True)"""
    c = context(hwi)
    out = []
    u_eff = odict() if no_new else u
    mt = expected_completion(t, c["rules"])
    mu = expected_completion(u_eff, c["rules"])
    try:
        old, new, diff, cmds = real_gen_patch(c, t, u, no_new)
    except Exception as e:
        err = "%s: %s" % (type(e).__name__, e)
        try:
            _, raw = real_patch(copy_tree(t), copy_tree(u_eff), c)
        except Exception as e2:
            return [("bounded:C17:raw-patch-exception", "the patch of t and u WITHOUT defaults raises", "a patch", "%s: %s" % (type(e2).__name__, e2))]
        return [("bounded:C17:patch-raises-with-defaults:" + patch_raise_cause(e, c["rules"]), "annet.gen + _diff_and_patch: the patch of "
                 "(t, u) is fine, with the implicit completion it raises", dict(patch_without_defaults=raw), err)]
    if plain(old) != plain(mt) or plain(new) != plain(mu):
        out.append(("bounded:C17:gen:completion-differs", "old/new out of _old_new_per_device are not the device text / the generator output "
                    "completed with the defaults (no_new=%s)" % no_new, dict(old=plain(mt), new=plain(mu)), dict(old=plain(old), new=plain(new))))
    cd = common_defaults(t, u_eff, mt, mu)

    def walk(d, path):
        for item in d:
            if item[1] in cd.get(path, ()):
                out.append(("bounded:C17:gen:diff-entry-for-common-default",
                            "annet.gen (no_new=%s): diff entry %s %r at %r for a default row that is neither in the device text nor "
                            "generated" % (no_new, item[0], item[1], list(path)), "no entry", _diff_j(diff)))
            walk(item[2], path + (item[1],))
    walk(diff, ())
    for p in cmds:
        par, cmd = p[:-1], p[-1]
        for d in cd.get(par, ()):
            if core(cmd, c["neg"]) == core(d, c["neg"]):
                tr, ur = set(at(t, par)), set(at(u_eff, par))
                if not any(core(r, c["neg"]) == core(d, c["neg"]) for r in tr ^ ur):
                    out.append(("bounded:C17:gen:command-for-common-default",
                                "annet.gen (no_new=%s): command %r at %r names the default row %r that is neither in the device text nor "
                                "generated" % (no_new, cmd, list(par), d), "no such command", cmds))
    return out


def _diff_j(d):
    return [[str(i[0]), i[1], _diff_j(i[2])] for i in d]


# ---------------------------------------------------------------- driver
def cases(tier, seed, part, nparts):
    i = -1
    for hwi in range(len(HARDWARE)):
        c = context(hwi)
        rules, neg = c["rules"], c["neg"]
        # (S) every block pattern of the shipped rules has a sample
        for r in _all_rules(rules):
            if r.ignore:
                i += 1
                if i % nparts == part:
                    yield dict(kind="samples", hw=hwi, pattern=r.row)
        # (T) completion checks
        for t in (trees(rules, neg, 2, 2) if tier == "quick" else trees(rules, neg, 2, 3) + [x for x in trees(rules, neg, 3, 1) if len(x) == 3]):
            i += 1
            if i % nparts == part:
                yield dict(kind="tree", hw=hwi, t=t)
        # (P) patch checks on all pairs of the small family
        fam = trees(rules, neg, 1, 1 if tier == "quick" else 3)
        for a, t in enumerate(fam):
            for b, u in enumerate(fam):
                if tier == "quick" and (a > b) == ((a + b) % 2 == 0) and a != b:
                    continue    # quick: every unordered pair once, the direction alternating with the parity of a+b
                i += 1
                if i % nparts == part:
                    yield dict(kind="pair", hw=hwi, t=t, u=u)
        # (G) the real annet.gen._old_new_per_device + api._diff_and_patch: device text t (never empty: an empty device config is
        #     replaced by the vendor's initial config), generator output u, normal mode and clear mode (no_new)
        gfam = [x for x in trees(rules, neg, 1, 1) if x]
        step = 10 if tier == "quick" else 3
        for t in gfam:
            i += 1
            if i % nparts == part:
                yield dict(kind="gen", hw=hwi, t=t, u=odict(), no_new=True)
            for u in [odict()] + gfam[::step] + [t]:
                i += 1
                if i % nparts == part:
                    yield dict(kind="gen", hw=hwi, t=t, u=u, no_new=False)
        # (R) random bigger trees and edits
        for j in range(250 if tier == "quick" else 5000):
            i += 1
            if i % nparts == part:
                rng = random.Random("%s/%d/%d" % (seed, hwi, j))
                t = random_tree(rules, neg, rng)
                u = edit_tree(t, rules, neg, rng) if rng.random() < 0.85 else random_tree(rules, neg, rng)
                yield dict(kind="pair+tree", hw=hwi, t=t, u=u)


def seq_cases(tier, part, nparts, start):
    """(Q) device sequences; yields (index after, case)"""
    i = start
    for seq in sequences():
        for t in sequence_trees(seq, tier):
            i += 1
            if i % nparts == part:
                yield dict(kind="seq", hw=None, devices=seq, t=t)


def _all_rules(rules):
    for r in rules:
        yield r
        yield from _all_rules(r.children)


def _to_odict(d):
    return odict((k, _to_odict(v)) for k, v in d.items())


def check_case(case):
    if case["kind"] == "seq":
        return check_sequence(case["devices"], [_to_odict(case["t"])])[0]
    hwi = case["hw"]
    out = []
    if case["kind"] == "samples":
        good, _ = instances(case["pattern"])
        if not good:
            out.append(("bounded:C17:no-sample-for-pattern", "no word of the pool instantiates block pattern %r" % case["pattern"], ">= 1 sample", []))
        return out
    t = _to_odict(case["t"])
    if case["kind"] == "gen":
        return check_gen(hwi, t, _to_odict(case["u"]), case["no_new"])
    if "tree" in case["kind"]:
        res, _ = check_completion(hwi, t)
        out.extend(res)
    if "pair" in case["kind"]:
        u = _to_odict(case["u"])
        if case["kind"] != "pair":
            res, _ = check_completion(hwi, u)
            out.extend(res)
        out.extend(check_pair(hwi, t, u))
    return out


def _has_default_interplay(hwi, t):
    """non-trivial: some applicable default is suppressed by an explicit row of its kind, or added under an explicit block"""
    c = context(hwi)
    exp = expected_completion(t, c["rules"])
    d = applicable_defaults(t, c["rules"])
    for path, rows in d.items():
        sub_t, sub_e = at(t, path), at(exp, path)
        for r in rows:
            if r not in sub_e or r in sub_t:
                return True       # suppressed / explicit
            if path:
                return True       # added under an explicit block
    return False


def run(tier="quick", seed=0, part=0, nparts=1):
    setup_annet()
    ev = 0
    nontrivial = set()
    failures = []
    per_key = {}
    samples = []
    for case in cases(tier, seed, part, nparts):
        ev += 1
        jcase = dict(case)
        for k in ("t", "u"):
            if k in jcase:
                jcase[k] = plain(jcase[k])
        jcase["hw_model"] = list(HARDWARE[case["hw"]])
        res = check_case(case)
        if case["kind"] != "samples":
            nt = _has_default_interplay(case["hw"], case["t"])
            if case["kind"] == "gen":
                nt = True     # some top-level default is always absent from the text or suppressed by it
            if "pair" in case["kind"]:
                nt = (nt or _has_default_interplay(case["hw"], case["u"])) and plain(case["t"]) != plain(case["u"])
            if nt:
                nontrivial.add(h(jcase))
                if part == 0 and len(samples) < 2 and case["kind"] == "pair" and case["hw"] == 0 and case["t"] and case["u"]:
                    samples.append(jcase)
        for (key, text, exp, act) in res:
            per_key[key] = per_key.get(key, 0) + 1
            if per_key[key] <= 3:
                failures.append(dict(key=key, text=text, case=jcase, expected=exp, actual=act))
    # (Q) sequences of devices in one fresh process: the trees of this part are handed to one child per sequence
    by_seq = odict()
    for case in seq_cases(tier, part, nparts, -1):
        by_seq.setdefault(repr(case["devices"]), []).append(case)
    for cs in by_seq.values():
        seq = cs[0]["devices"]
        outs = check_sequence(seq, [c["t"] for c in cs])
        for case, res in zip(cs, outs):
            ev += 1
            jcase = dict(kind="seq", devices=seq, t=plain(case["t"]))
            exps = set(repr(plain(expected_completion(case["t"], device_rules(m, tg)))) for (m, tg) in seq)
            if len(exps) > 1:      # the devices of the sequence are owed different completions of this tree
                nontrivial.add(h(jcase))
            for (key, text, exp, act) in res:
                per_key[key] = per_key.get(key, 0) + 1
                if per_key[key] <= 3:
                    failures.append(dict(key=key, text=text, case=jcase, expected=exp, actual=act))
    tt = "<= 2 root rows x <= 2 rows per block" if tier == "quick" else "<= 2 root rows x <= 3 rows per block, and 3 root rows x <= 1 row per block"
    pp = 1 if tier == "quick" else 3
    return dict(evaluations=ev, nontrivial=sorted(nontrivial), failures=failures, samples=samples,
                rule="18 hardware models covering every branch of _implicit_tree (Huawei CE/NE/Quidway/plain, Arista, Nexus 5596/3432/9508 with "
                     "and without tag spine1/9316/N9K-C9364C/3132, Catalyst 2960/3560/3650/3750, plain Cisco, ASR). Trees over the words of "
                     "the rules: per default row {the row, its negation, the same command with another value, the row + one more word} (mutually exclusive), per block "
                     "pattern up to 3 matching sample names + 1 look-alike that does not match, `description x` under blocks. (T) completion "
                     "checks on all trees with %s; (P) patch checks on all pairs (t,u) of trees with <= 1 root row and <= %d rows per block%s; "
                     "(G) the real annet.gen._old_new_per_device (stub device/context, trivial generator yielding u, implicit on, no ACL) + "
                     "api._diff_and_patch: every non-empty t with <= 1 root row x <= 1 row per block as device text, in clear mode "
                     "(no_new) and in normal mode with u in {nothing, every %s tree of the family, t}: old/new == completions, no diff "
                     "entry / command for a default in neither text; (R) seeded random trees (<= 5 root rows) with u = random edit of "
                     "t, completion + patch checks; (Q) devices that share the model string and differ in tags (what _implicit_tree "
                     "reads besides hw): Nexus 9508 with tags spine1 / none / spine1+other, every ordered pair and the whole group both "
                     "ways, each sequence served by ONE fresh child process, trees with <= 1 root row over the union of the tables; each "
                     "device's completion against the own reading of its default text fetched from a separate fresh process serving only "
                     "that device (non-trivial: the devices are owed different completions). non-trivial = some "
                     "applicable default is suppressed by an explicit row or added under an explicit block (pairs: and t != u); distinct by "
                     "(hw, t, u)" % (tt, pp, " (quick: each unordered pair once, direction alternating)" if tier == "quick" else "",
                                     "10th" if tier == "quick" else "3rd"),
                bound="%s (completion); all pairs of trees with <= 1 root row x <= %d rows per block (patch); annet.gen on <= 1 root row x <= 1 "
                      "row per block, both modes; device sequences sharing a model string (both orders); random beyond" % (tt, pp))


def replay(case):
    res = check_case(case)
    return dict(ok=not res, expected=[r[2] for r in res][:3], actual=[r[3] for r in res][:3], keys=[r[0] for r in res])


if __name__ == "__main__":
    import sys as _sys
    if "--child" in _sys.argv:
        _child_main()
