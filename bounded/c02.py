"""C02 bounded layer: "A patch never touches configuration outside the generators' ACL".

Real code under test: annet.api._diff_and_patch(device_stub, old, new, acl_rules, None, add_comments=False, rb=...) with
acl_rules = compile_acl_text(RunGeneratorResult.acl_text(), vendor) (the real per-generator tagging, 1-2 generators), the
real formatter.cmd_paths; for a share of the huawei cases also annet.gen._old_new_per_device with a stub device / context
(config="running", the device text = formatter.join(old), real PartialGenerator classes built by bounded.c10.build).

Independent oracle: bounded/ref_acl.py decides coverage (ACL language description), bounded/devsim.py executes the patch.
Rulebooks are such that the logic emits only the row or its negation (`~ %global`, or `*` rules whose rows consist of exactly
the rule's words), plus a `common.permanent` block rule (custom text and the shipped cisco.rul physical-port rule) that keeps
the block and clears its lines -- there the "removed" half of clause (d) is off.

  (a) every path of cmd_paths(patch) is covered by the united ACL level by level, directly or as the reverse form; the
      block-exit word is excepted                                             key  patch-command-outside-acl
      ... and is not the negation of a row governed only by undeletable rules key  patch-command-negates-undeletable-row
      (decided both through the reference matcher and directly: `<neg> X` typed in the block where the device holds X and
      every rule matching X is undeletable -- e.g. only a catch-all `~ %cant_delete=1`)
  (b) dev' = dev_apply(old, cmd_paths): every row of old that no rule covers (all its ancestors covered) and whose ancestors
      all survive in dev' is in dev' with exactly its old subtree                     key  uncovered-row-changed
      and dev' has no row that is neither in old nor in the covered part of new       key  foreign-row-created
  (c) a row of old whose matching rules are all undeletable (%cant_delete=1, or the built-in default for `interface ...`;
      two generators' flags united: undeletable only if every declaration says so) is not absent from dev'
                                                                                      key  cant_delete-row-removed
      (when it disappears because a deletable, covered ancestor block is removed: key cant_delete-row-removed-with-deletable-ancestor)
  (d) liveness inside the ACL (needed to see over-filtering): every covered row of `new` is in dev'   key  acl-scope:covered-row-not-added
      every covered row of old that is absent from new, deletable by every matching rule, parent kept  key  acl-scope:covered-row-not-removed
Cases in which the reference matcher finds the governing rule ambiguous are skipped and counted.
"""
import logging
import types
from collections import OrderedDict as odict

from bounded.common import setup_annet, h
from bounded import devsim, gen_rb, ref_acl
from bounded.gen_rb import to_tree, to_nested
from bounded.ref_acl import plain

K = "bounded:C02:"
VENDORS = [("huawei", "Huawei CE6870-48S6CQ-EI"), ("cisco", "Cisco"), ("arista", "Arista"), ("juniper", "Juniper")]

# rows whose first word merely begins with `interface` get the built-in cant_delete default too (the default looks at the
# beginning of the rule text): `interfaces`, `interface-range x`, `interfaceX`
ROWS = [
    ["a", "a b", "a c", "interface x", "interface y", "b 5", "sys z", "interfaces", "interface-range x", "interfaceX"],
    ["x", "x y", "description foo", "mtu 9000", "z", "ip address 10.0.0.1 24"],
    ["p", "p q", "q"],
]
RB_TEXTS = [
    "~ %global\n",
    "interface *\n    description ~\n    mtu *\n    ~ %global\na *\n    ~ %global\nb *\n~ %global\n",
    # a block rule that never removes its row but clears what is below it (as the shipped physical-port rules)
    "interface * %logic=common.permanent\n    ~ %global\n~ %global\n",
]
# clause (d) "covered deletable rows absent from new are removed" presupposes a logic that emits the negation
RB_REMOVES = {0: True, 1: True, 2: False, "shipped": False}
# what the device simulator is told about the shipped rulebook in the hand-made family (rows there have key = whole row)
SIM_TEXT = {"shipped": "~ %global\n"}


# ---------------------------------------------------------------------------------------------------------------------
# inputs
def rand_tree(rnd, level=0, p=0.5, neg=None):
    out = []
    rows = list(ROWS[level])
    rnd.shuffle(rows)
    for row in rows:
        if rnd.random() >= p:
            continue
        ch = []
        if level < 2 and rnd.random() < (0.75 if row.startswith(("interface", "a ")) else 0.25):
            ch = rand_tree(rnd, level + 1, p)
        out.append([row, ch])
    if neg and rnd.random() < 0.5:
        # a generator that yields a delete command
        base = rnd.choice(ROWS[level])
        out.insert(rnd.randint(0, len(out)), ["%s %s" % (neg, base), []])
    return out


def mutate_tree(rnd, tree, level=0):
    out = []
    for row, ch in tree:
        x = rnd.random()
        if x < 0.3:
            continue
        out.append([row, mutate_tree(rnd, ch, level + 1) if (ch and x < 0.8 and level < 2) else ch])
    have = {r for r, _ in out}
    for row, ch in rand_tree(rnd, level, 0.3):
        if row not in have:
            out.insert(rnd.randint(0, len(out)), [row, ch])
    return out


def _pattern(rnd, row):
    w = row.split()
    r = rnd.random()
    if r < 0.4:
        return row
    if r < 0.62 and len(w) >= 2:
        return " ".join(w[:-1] + ["*"])
    if r < 0.8 and len(w) >= 2:
        return w[0] + " ~"
    if r < 0.9:
        return w[0]
    if r < 0.95:
        return "*"
    return "~"


def _acl_struct(rnd, tree, level, drop):
    """{pattern: [params, children struct]} (one declaration per pattern and level)"""
    out = odict()
    for row, ch in tree:
        if rnd.random() < drop:
            continue
        if level >= 1 and rnd.random() < 0.15:
            out.setdefault("~", [rnd.choice(["%global", "%global", "%global  %cant_delete=1", "%global  %cant_delete=0"]), odict()])
            continue
        pat = _pattern(rnd, row)
        par = rnd.choice(["", "", "", "%cant_delete=0", "%cant_delete=0", "%cant_delete=1", "%cant_delete"])
        sub = _acl_struct(rnd, ch, level + 1, drop)
        if pat in out:
            if "%global" not in out[pat][0]:
                for k, v in sub.items():
                    out[pat][1].setdefault(k, v)
        else:
            out[pat] = [par, sub]
    if tree and "~" not in out and rnd.random() < 0.2:
        # a catch-all for the lines no more specific rule names, mostly undeletable
        out["~"] = [rnd.choice(["%cant_delete=1", "%cant_delete=1", "%cant_delete", "%cant_delete=0", ""]), odict()]
    return out


def _render(struct, level=0):
    lines = []
    for pat, (par, sub) in struct.items():
        lines.append("    " * level + pat + ("  " + par if par else ""))
        if "%global" not in par:
            lines.extend(_render(sub, level + 1))
    return lines


def derived_acl(rnd, tree, level=0, drop=0.2):
    """ACL lines over the rows of a tree: literal / `*` / `~` / first word patterns, %cant_delete=0/1 or the default,
    `~ %global` below the top level, rows left out (those stay uncovered)"""
    return _render(_acl_struct(rnd, tree, level, drop))


def _strip_neg(tree, neg):
    return [[r, _strip_neg(ch, neg)] for r, ch in tree if not r.startswith(neg + " ")]


PORT_CHILDREN = {2: ["ip address 10.0.0.1 24", "description foo", "mtu 9000", "z"],
                 "shipped": ["ip address 10.0.0.1 255.255.255.0", "ipv6 address 2001:db8::1/64"]}


def port_case(rnd, idx):
    """a deletable interface block (one generator says %cant_delete=0) with undeletable lines declared by a second generator,
    under a rulebook whose block rule is common.permanent (custom text, or the shipped cisco.rul physical-port rule)"""
    rb = "shipped" if idx % 2 else 2
    vendor = "cisco" if rb == "shipped" else ["huawei", "cisco", "arista"][idx // 2 % 3]
    names = ["interface GigabitEthernet0/1", "interface GigabitEthernet0/2"] if rb == "shipped" else ["interface x", "interface y"]
    kids = PORT_CHILDREN[rb]
    old = [[n, [[k, []] for k in kids if rnd.random() < 0.8]] for n in names if rnd.random() < 0.9]
    if rb == 2 and rnd.random() < 0.5:
        old.append(["sys z", []])
    new = []
    for n, ch in old:
        if n.startswith("interface") and rnd.random() < 0.4:
            new.append([n, [c for c in ch if rnd.random() < 0.5]])
    flag = lambda: rnd.choice(["  %cant_delete", "  %cant_delete=1", "  %cant_delete=1", "  %cant_delete=0", ""])
    first = lambda k: rnd.choice([k.split()[0] + " " + k.split()[1], k.split()[0] + " ~", k]) if len(k.split()) > 2 else k
    g0 = "interface *  %cant_delete=0" + "".join("\n    %s%s" % (first(k), flag()) for k in kids if rnd.random() < 0.4)
    g1 = "interface *" + rnd.choice(["", "  %cant_delete=0", "  %cant_delete=0", "  %cant_delete=1"]) + \
         "".join("\n    %s%s" % (first(k), flag()) for k in kids if rnd.random() < 0.8)
    gens = [dict(name="G0", acl=g0), dict(name="G1", acl=g1)]
    if rnd.random() < 0.3:
        gens = gens[::-1]
        gens[0]["name"], gens[1]["name"] = "G0", "G1"
    return dict(vendor=vendor, rb=rb, gens=gens, old=old, new=new, mode="conformant", via_gen=False)


def add_negations(rnd, old, new, neg, p=0.3):
    """the generators also yield delete commands for lines the device holds: for some rows of old put `<neg> row` into new at
    the same block path (next to the row or instead of it); the enclosing blocks are created in new when missing"""
    out = [[r, list(ch)] for r, ch in new]
    for row, ch in old:
        if row.startswith(neg + " "):
            continue
        here = [x for x in out if x[0] == row]
        if rnd.random() < p:
            if here and rnd.random() < 0.5:
                out.remove(here[0])
                here = []
            out.insert(rnd.randint(0, len(out)), ["%s %s" % (neg, row), []])
        elif ch and rnd.random() < 0.6:
            if not here:
                here = [[row, []]]
                out.append(here[0])
            here[0][1] = add_negations(rnd, ch, here[0][1], neg, p + 0.15)
    return out


def random_case(rnd, idx):
    if idx % 8 == 7:
        return port_case(rnd, idx // 8)
    vendor = VENDORS[idx % len(VENDORS)][0] if idx % 5 else "huawei"
    neg = ref_acl.NEGATION[vendor]
    old = rand_tree(rnd, 0, rnd.choice([0.4, 0.6, 0.8]))
    mode = rnd.choice(["conformant", "conformant", "conformant", "raw", "raw"])
    newraw = mutate_tree(rnd, old) if rnd.random() < 0.7 else rand_tree(rnd, 0, 0.5)
    if mode == "raw" and rnd.random() < 0.7:
        newraw = add_negations(rnd, old, newraw, neg)
    elif mode == "raw" and rnd.random() < 0.6:
        newraw = newraw + rand_tree(rnd, 0, 0.0, neg=neg)[:1]
        if newraw and newraw[0][1] is not None and rnd.random() < 0.5:
            for r in newraw:
                if r[1] and not r[0].startswith(neg):
                    r[1].append(["%s %s" % (neg, rnd.choice(ROWS[1])), []])
                    break
    base = to_nested(ref_acl.tree_union(to_tree(old), to_tree(_strip_neg(newraw, neg))))
    n = rnd.choice([1, 1, 2, 2])
    gens = []
    for i in range(n):
        acl = "\n".join(derived_acl(rnd, base, drop=rnd.choice([0.1, 0.25, 0.4])))
        if rnd.random() < 0.15:
            acl += "\n" + rnd.choice(["interface *\n    ~", "interface * %cant_delete=0\n    ~ %global", "a ~", "*", "interface *",
                                      "interface *\n    ~ %cant_delete=1", "a *\n    ~ %global %cant_delete=1"])
        if mode == "raw" and rnd.random() < 0.2:
            acl = rnd.choice(["~ %cant_delete=1", "~ %cant_delete=1\n    ~ %cant_delete=1", "~ %cant_delete=0\n    ~ %global %cant_delete=1",
                              "interface *\n    ~ %cant_delete=1\n~ %cant_delete=1"])
        gens.append(dict(name="G%d" % i, acl=acl))
    return dict(vendor=vendor, rb=idx % len(RB_TEXTS), gens=gens, old=old, new=newraw, mode=mode,
                via_gen=(vendor == "huawei" and mode == "conformant" and idx % 2 == 0))


HAND = [
    # the cant_delete sub-block of tests/annet/test_cant_delete.py
    dict(vendor="huawei", rb=0, gens=[dict(name="G0", acl="interface %cant_delete=1\n    stays %cant_delete=1\n    removed")],
         old=[["interface ge1/1/1", [["stays", []], ["removed", []]]]], new=[], mode="conformant", via_gen=False),
    # built-in default for interface rows, uncovered neighbours
    dict(vendor="huawei", rb=1, gens=[dict(name="G0", acl="interface *\n    description ~")],
         old=[["interface x", [["description foo", []], ["mtu 9000", []]]], ["interface y", [["mtu 9000", []]]], ["sys z", []]],
         new=[["interface x", [["description bar", []]]]], mode="conformant", via_gen=True),
    # two generators: one says cant_delete, the other allows deletion -> deletable
    dict(vendor="huawei", rb=0, gens=[dict(name="G0", acl="a * %cant_delete=1\n    x"), dict(name="G1", acl="a * %cant_delete=0\n    z")],
         old=[["a b", [["x", []], ["z", []], ["q", []]]], ["a c", []], ["b 5", []]], new=[], mode="conformant", via_gen=False),
    dict(vendor="cisco", rb=0, gens=[dict(name="G0", acl="a * %cant_delete=1\n    x"), dict(name="G1", acl="a * %cant_delete=1\n    z")],
         old=[["a b", [["x", []], ["z", []], ["q", []]]], ["a c", []], ["b 5", []]], new=[], mode="conformant", via_gen=False),
    # a generator yielding the delete command of an undeletable row
    dict(vendor="huawei", rb=0, gens=[dict(name="G0", acl="interface *\n    ~")],
         old=[["interface x", [["mtu 9000", []]]]], new=[["undo interface x", []]], mode="raw", via_gen=False),
    # a catch-all undeletable rule and a generator that yields the delete command of a device line (top level / in a block)
    dict(vendor="huawei", rb=0, gens=[dict(name="G0", acl="~ %cant_delete=1")],
         old=[["sys z", []], ["b 5", []]], new=[["undo sys z", []], ["b 5", []]], mode="raw", via_gen=False),
    dict(vendor="cisco", rb=1, gens=[dict(name="G0", acl="interface *\n    ~ %cant_delete=1")],
         old=[["interface x", [["mtu 9000", []], ["z", []]]]], new=[["interface x", [["no mtu 9000", []], ["z", []]]]], mode="raw", via_gen=False),
    dict(vendor="arista", rb=0, gens=[dict(name="G0", acl="a *\n    ~ %global %cant_delete=1"), dict(name="G1", acl="b *")],
         old=[["a b", [["x", [["p", []]]]]]], new=[["a b", [["x", [["no p", []]]], ["no x", []]]]], mode="raw", via_gen=False),
    # the built-in default also holds for rule texts that merely begin with `interface`
    dict(vendor="juniper", rb=0, gens=[dict(name="G0", acl="interfaces\n    ~ %global\ninterface-range *\n    ~")],
         old=[["interfaces", [["x", [["p", []]]]]], ["interface-range x", [["z", []]]], ["sys z", []]], new=[], mode="conformant", via_gen=False),
    dict(vendor="huawei", rb=0, gens=[dict(name="G0", acl="interfaceX\ninterface-range ~")],
         old=[["interfaceX", []], ["interface-range x", [["z", []]]]], new=[], mode="conformant", via_gen=False),
    # deletable block kept by a permanent block rule: the undeletable line of the second generator stays
    dict(vendor="cisco", rb=2, gens=[dict(name="G0", acl="interface * %cant_delete=0"), dict(name="G1", acl="interface *\n    ip address %cant_delete")],
         old=[["interface x", [["ip address 10.0.0.1 24", []], ["mtu 9000", []]]]], new=[], mode="conformant", via_gen=False),
    dict(vendor="cisco", rb="shipped", gens=[dict(name="G0", acl="interface * %cant_delete=0"),
                                             dict(name="G1", acl="interface *\n    ip address %cant_delete")],
         old=[["interface GigabitEthernet0/1", [["ip address 10.0.0.1 255.255.255.0", []]]]], new=[], mode="conformant", via_gen=False),
]


# ---------------------------------------------------------------------------------------------------------------------
# real runs
_env = {}


def env(vendor, rbi):
    k = (vendor, rbi)
    e = _env.get(k)
    if e is None:
        setup_annet()
        logging.disable(logging.CRITICAL)
        from annet.vendors import registry_connector
        hw = gen_rb.hw_of(dict(VENDORS)[vendor])
        if rbi == "shipped":
            from annet import rulebook
            rb = rulebook.get_rulebook(hw)
        else:
            rb = gen_rb.compile_rb(hw.vendor, RB_TEXTS[rbi])
        fmt = registry_connector.get().match(hw).make_formatter()
        e = _env[k] = types.SimpleNamespace(hw=hw, rb=rb, fmt=fmt, stub=types.SimpleNamespace(hw=hw, hostname="stub", fqdn="stub"))
    return e


def real_acl(gens, vendor):
    """the united ACL exactly as annet.gen builds it: RunGeneratorResult.acl_text() tagging + compile_acl_text"""
    from annet.annlib.rbparser.acl import compile_acl_text
    from annet.generators.result import RunGeneratorResult
    from annet.types import GeneratorPartialResult
    res = RunGeneratorResult()
    for g in gens:
        res.add_partial(GeneratorPartialResult(name=g["name"], tags=[], acl=g["acl"], acl_rules=None, acl_safe="", acl_safe_rules=None,
                                               output="", config=odict(), safe_config=odict(), perf=None))
    return compile_acl_text(res.acl_text(), vendor)


def united_rules(gens):
    rules = []
    for g in gens:
        rules += ref_acl.parse_acl(g["acl"], default_gen=g["name"])
    return ref_acl._unite(rules)


def _program(tree):
    out = []
    for row, ch in tree.items():
        if ch:
            out.append(["b", [row], _program(ch)])
        else:
            out.append(["y", row])
    return out


def run_via_gen(case, e, old, new, rules):
    """_old_new_per_device with real generator classes -> (old', new', acl_rules, filter_acl_rules) or None when the set of
    generators is refused (exclusivity / own-ACL errors are C10's subject)"""
    from bounded import c10
    env10 = c10._annet()
    gens = []
    for g in case["gens"]:
        own = ref_acl.ref_eval(new, ref_acl.parse_acl(g["acl"], default_gen=g["name"]), case["vendor"])
        if own.ambiguous:
            return None
        gens.append(dict(name=g["name"], acl=g["acl"], program=_program(own.tree)))
    ctx = env10.ctx
    ctx.gens.partial[env10.dev] = c10.build(gens)
    saved = (ctx.config, ctx.running)
    ctx.config, ctx.running = "running", {env10.dev: e.fmt.join(old)}
    try:
        res = env10.agen._old_new_per_device(ctx, env10.dev, None)
    except (env10.GeneratorError, env10.patching.AclError):
        return None
    finally:
        ctx.config, ctx.running = saved
        ctx.gens.partial[env10.dev] = []
    if res.err is not None:
        raise res.err
    return res.old, res.new, res.acl_rules, getattr(res, "filter_acl_rules", None)


# ---------------------------------------------------------------------------------------------------------------------
def _tree_paths(patch, prefix=()):
    out = []
    for item in patch.itms:
        row = str(item.row)
        out.append(prefix + (row,))
        if item.child is not None:
            out.extend(_tree_paths(item.child, prefix + (row,)))
    return out


def _node(tree, path):
    n = tree
    for k in path:
        if k not in n:
            return None
        n = n[k]
    return n


def _negated_ancestor(p, paths, neg):
    """the shortest proper prefix q of the row path p such that some command is `<neg> q[-1]` typed in the block q[:-1]
    (the enclosing block was removed by the patch, whether or not it is created again afterwards)"""
    cmds = set(paths)
    for i in range(1, len(p)):
        if p[:i - 1] + ("%s %s" % (neg, p[i - 1]),) in cmds:
            return p[:i]
    return None


def _protected(cands):
    direct = [c for c in cands if not c.reverse]
    return bool(direct) and all(c.rule.no_delete for c in direct)


def _deletable(cands):
    direct = [c for c in cands if not c.reverse]
    return bool(direct) and not any(c.rule.no_delete for c in direct)


def check(case):
    """-> (failures [(key, text, expected, actual)], info)"""
    from annet.api import _diff_and_patch
    vendor = case["vendor"]
    neg = ref_acl.NEGATION[vendor]
    e = env(vendor, case["rb"])
    rbt = SIM_TEXT[case["rb"]] if case["rb"] in SIM_TEXT else RB_TEXTS[case["rb"]]
    old = to_tree(case["old"])
    rules = united_rules(case["gens"])
    info = dict(ambiguous=False, new_ambiguous=False, amb_cmds=0, cmds=0, uncovered=0, protected=0, via_gen=False)
    fails = []
    r_new = ref_acl.ref_eval(to_tree(case["new"]), rules, vendor)
    r_old = ref_acl.ref_eval(old, rules, vendor)
    if r_old.ambiguous or r_old.clash:
        info["ambiguous"] = True
        return fails, info
    # when only the reading of `new` is ambiguous (typically a yielded delete command that one rule passes and another
    # suppresses) the clauses about the DEVICE rows -- (b), (c) and the per-command part of (a) -- still have a definite
    # expectation; new is then handed over raw and the clauses that need "the covered part of new" are left out
    new_amb = bool(r_new.ambiguous or r_new.clash)
    info["new_ambiguous"] = new_amb
    new = r_new.tree if (case["mode"] == "conformant" and not new_amb) else to_tree(case["new"])
    exp_new = r_new.tree            # what the generators own of `new`
    runs = [("direct", old, new, real_acl(case["gens"], e.hw.vendor), None)]
    if case.get("via_gen") and case["old"] and not new_amb:
        # (an empty device text makes _old_new_per_device assume the vendor's factory configuration instead: other scope)
        r = run_via_gen(case, e, old, exp_new, rules)
        if r is not None:
            info["via_gen"] = True
            runs.append(("old_new_per_device",) + r)
    info["uncovered"] = len(r_old.uncovered)
    for (how, o, n, acl_rules, facl) in runs:
        diff, patch = _diff_and_patch(e.stub, o, n, acl_rules, facl, add_comments=False, rb=e.rb)
        cmds = [tuple(str(x) for x in p) for p in e.fmt.cmd_paths(patch).keys()]
        info["cmds"] += len(cmds)
        # (a)  (flat vendors: the rows of the patch tree with their block paths are the addressed lines)
        spaths = _tree_paths(patch) if vendor in devsim.FLAT else cmds
        for p in spaths:
            if len(p) > 1 and p[-1] in devsim.EXIT[vendor]:
                continue
            # (c) on the command itself: the negation of a device row whose matching rules are all undeletable
            if p[-1].startswith(neg + " "):
                target = p[:-1] + (p[-1][len(neg) + 1:],)
                if _node(r_old.tree, target) is not None and _protected(r_old.cands[target]):
                    fails.append((K + "patch-command-negates-undeletable-row", "%s: the command %r is the negation of the device row %r that "
                                  "is governed only by undeletable rules" % (how, " / ".join(p), " / ".join(target)), "no such command",
                                  dict(cmds=cmds)))
                    continue
            ok, r = ref_acl.ref_covers(p, rules, vendor)
            if r.ambiguous:
                info["amb_cmds"] += 1
                continue
            if r.suppressed:
                fails.append((K + "patch-command-negates-undeletable-row", "%s: the command %r is the negation of a row governed only by "
                              "undeletable rules" % (how, " / ".join(p)), "no such command", dict(cmds=cmds)))
            elif r.uncovered:
                fails.append((K + "patch-command-outside-acl", "%s: the command %r is not covered by the united ACL at %r" %
                              (how, " / ".join(p), " / ".join(r.uncovered[0])), "every level of every command path covered", dict(cmds=cmds)))
        # the device holds the whole old configuration
        try:
            dev2 = devsim.dev_apply(old, cmds, rbt, vendor, schema=[n, exp_new])
        except devsim.Undecodable:
            info["ambiguous"] = True       # a flat command with two / no readings in this hierarchy: outside the scope
            continue
        # (b)
        for u in r_old.uncovered:
            if all(_node(dev2, u[:i]) is not None for i in range(1, len(u))) and _negated_ancestor(u, spaths, neg) is None:
                got = _node(dev2, u)
                if got is None or plain(got) != plain(_node(old, u)):
                    fails.append((K + "uncovered-row-changed", "%s: the device row %r no ACL rule covers is not left as it was" % (how, " / ".join(u)),
                                  dict(row=" / ".join(u), subtree=to_nested(_node(old, u))),
                                  dict(subtree=(None if got is None else to_nested(got)), cmds=cmds)))
        oldp, newp = set(ref_acl.paths(old)), set(ref_acl.paths(exp_new))
        for p in ([] if new_amb else ref_acl.paths(dev2)):
            if p not in oldp and p not in newp:
                fails.append((K + "foreign-row-created", "%s: the device gets the row %r that is neither in old nor in the covered part of new" %
                              (how, " / ".join(p)), None, dict(cmds=cmds, device=to_nested(dev2))))
                break
        # (c)
        for p in ref_acl.paths(r_old.tree):
            if not _protected(r_old.cands[p]):
                continue
            info["protected"] += 1
            if _node(dev2, p) is None:
                q = next(p[:i] for i in range(1, len(p) + 1) if _node(dev2, p[:i]) is None)
                if q == p:
                    # the enclosing block may have been removed by the patch and created again (new carries both forms)
                    q = _negated_ancestor(p, spaths, neg) or p
                if q == p:
                    fails.append((K + "cant_delete-row-removed", "%s: the row %r is covered only by undeletable rules and is removed" %
                                  (how, " / ".join(p)), "row kept", dict(cmds=cmds, device=to_nested(dev2))))
                elif not _protected(r_old.cands[q]):
                    fails.append((K + "cant_delete-row-removed-with-deletable-ancestor", "%s: the row %r is covered only by undeletable rules "
                                  "and disappears because its deletable ancestor %r is removed" % (how, " / ".join(p), " / ".join(q)),
                                  "row kept", dict(cmds=cmds, device=to_nested(dev2))))
        # (d)  (not for a `new` that carries delete commands: it may contradict itself)
        has_neg = new_amb or any(x.startswith(neg + " ") for p in ref_acl.paths(to_tree(case["new"])) for x in p)
        for p in ([] if (has_neg or case["rb"] == "shipped") else ref_acl.paths(exp_new)):
            if _node(dev2, p) is None:
                fails.append((K + "acl-scope:covered-row-not-added", "%s: the covered row %r of new does not reach the device" % (how, " / ".join(p)),
                              "row present", dict(cmds=cmds, device=to_nested(dev2))))
                break
        if not has_neg and RB_REMOVES[case["rb"]]:
            for p in ref_acl.paths(r_old.tree):
                if p in newp or not _deletable(r_old.cands[p]):
                    continue
                if _node(exp_new, p[:-1]) is None and len(p) > 1:
                    continue        # the parent goes (or stays because undeletable): not this row's business
                if _node(dev2, p) is not None:
                    fails.append((K + "acl-scope:covered-row-not-removed", "%s: the covered, deletable row %r of old is absent from new and stays" %
                                  (how, " / ".join(p)), "row removed", dict(cmds=cmds, device=to_nested(dev2))))
                    break
    return fails, info


# ---------------------------------------------------------------------------------------------------------------------
def n_cases(tier):
    return 24000 if tier == "quick" else 240000


def cases(tier, seed, part, nparts):
    for i, c in enumerate(HAND):
        if i % nparts == part:
            yield i, c
    for i in range(len(HAND), len(HAND) + n_cases(tier)):
        if i % nparts == part:
            yield i, random_case(gen_rb.rng(seed, "c02", i), i)


def run(tier="quick", seed=0, part=0, nparts=1):
    ev = amb = via = ambc = namb = 0
    nontrivial = set()
    failures = []
    per_key = {}
    samples = []
    for i, case in cases(tier, seed, part, nparts):
        ev += 1
        fs, info = check(case)
        amb += bool(info["ambiguous"])
        via += bool(info["via_gen"])
        ambc += info["amb_cmds"]
        namb += bool(info["new_ambiguous"])
        if info["cmds"] and (info["uncovered"] or info["protected"]) and not info["ambiguous"]:
            nontrivial.add(h(case))
        if part == 0 and len(samples) < 2 and info["cmds"] >= 3 and info["uncovered"] and len(case["gens"]) == 2 and i > len(HAND):
            samples.append(case)
        for (k, text, exp, act) in fs:
            per_key[k] = per_key.get(k, 0) + 1
            if per_key[k] <= 3:
                failures.append(dict(key=k, text=text, case=case, expected=exp, actual=act))
    return dict(
        evaluations=ev, nontrivial=sorted(nontrivial), failures=failures, samples=samples, failure_counts=per_key, ambiguous=amb, ambiguous_commands=ambc, new_ambiguous_checked_bc=namb,
        via_old_new_per_device=via,
        rule="seeded random cases (%d hand-made first): device tree old over rows %r (depth <= 3); new = a mutation of old or an "
             "independent tree, taken ACL-conformant (filtered by the reference matcher; 3 of 4 cases) or raw (uncovered rows and "
             "delete commands such as `undo interface x` included); 1-2 generators whose ACL texts are derived from the rows of "
             "old and new (literal / `*` / `~` / first-word / bare `*` / bare `~` patterns, nesting, `~ %%global` below the top level, "
             "%%cant_delete[=0/1] or the interface default, rows left out with prob. 0.1-0.4 so that uncovered rows stand next to "
             "covered ones) united through the real RunGeneratorResult.acl_text + compile_acl_text; vendors huawei / cisco / arista / juniper "
             "(flat commands split back by the simulator, clause (a) on the rows of the patch tree); three rulebooks (`~ %%global`; "
             "keyed `interface *`, `description ~`, `mtu *`, `a *`, `b *` + `~ %%global`; `interface * %%logic=common.permanent`) passed "
             "as rb=; every 8th case is a port case: a deletable interface block (`interface * %%cant_delete=0` of one generator) "
             "with lines a second generator declares undeletable, block mostly absent from new, under the permanent rulebook or "
             "the SHIPPED cisco.rul (`interface GigabitEthernet0/1`; clause (d) off there); rows whose first word merely begins with "
             "`interface` (interfaces, interface-range x, interfaceX) carry the built-in default too; half "
             "of the conformant huawei cases also through annet.gen._old_new_per_device (stub device/context, real generator "
             "classes). No %%prio, no %%global on patterns other than `~`. ACL levels also get a catch-all `~` (or `~ %%global`) "
             "with %%cant_delete=1/0; raw `new` (2 of 5) also carries the NEGATED forms `<neg> row` of rows the device holds, at the "
             "same block path. Cases whose OLD the reference matcher calls ambiguous are skipped (`ambiguous`); when only NEW is "
             "ambiguous, new is handed over raw and the clauses about device rows -- (b), (c), the command part of (a) -- are still "
             "checked (`new_ambiguous_checked_bc`); single patch commands it calls ambiguous are left out of the coverage part of "
             "(a) (`ambiguous_commands`). Non-trivial = the patch has commands and old has an uncovered row or a row covered only by undeletable "
             "rules; distinct by the json of the case" % (len(HAND), ROWS),
        bound="%d seeded random cases, trees of depth <= 3 over %d rows, 1-2 generators" % (n_cases(tier), sum(len(x) for x in ROWS)))


def replay(case):
    fs, info = check(case)
    if fs:
        return dict(ok=False, key=fs[0][0], expected=fs[0][2], actual=fs[0][3], all=[f[0] for f in fs])
    return dict(ok=True, expected="no command outside the ACL", actual="ambiguous: skipped" if info["ambiguous"] else "ok")
