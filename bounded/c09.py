"""C09 bounded layer: the command stream sent at deploy is exactly the patch that was shown.

Observed (real code): formatter.patch(pt) (what `annet patch` shows), formatter.cmd_paths(pt) (what is handed on),
annet.deploy.apply_deploy_rulebook(hw, cmd_paths, do_finalize, do_commit) (what the driver sends) and the production caller
CliDeployerJob.parse_result.

Oracle (independent, from the property statement + a pinned vendor table):
  * ref_stream(tree, family): every row once, in tree order, at its nesting depth; after every patch block the vendor's
    block-exit command (table EXIT below);
  * SESSION: per hardware the session wrapper (enter configuration mode before; commit, leave, save after);
  * deploy rule of a command = the rule reached by walking its block path row by row through the nested rules (a row that
    matches no rule of the current level is skipped, the level stays; own reader and matcher of the rulebook language in
    bounded.gen_rb), else the defaults (30 s, no dialog)."""
from unittest import mock

from bounded.common import setup_annet, h
from bounded import gen_rb as g

setup_annet()

FLAGS = [(c, f) for c in (True, False) for f in (True, False)]   # (do_commit, do_finalize)

# ---------------------------------------------------------------------------------------------------------------------
# pinned vendor tables
HUAWEI_NO_EXIT = ("rsa peer-public-key", "dsa peer-public-key", "public-key-code begin")


def exit_cmds(fam, row, parent_row, next_row, depth):
    """block-exit commands emitted after the block `row` (at `depth`) -> [(depth, text)]"""
    if fam == "none":
        return []
    if fam == "huawei":
        if row.startswith("xpl route-filter"):
            return [(depth + 1, "end-filter")]
        if row.startswith("xpl"):
            return [(depth + 1, "end-list")]
        if (parent_row or "").startswith("xpl route-filter"):
            # an if / elseif / else chain is closed by one endif, at the depth of the chain
            if row.startswith(("if", "elseif")) and row.endswith("then") and next_row is None:
                return [(depth, "endif")]
            if row == "else":
                return [(depth, "endif")]
            return []
        if row.startswith(HUAWEI_NO_EXIT):
            return []
        return [(depth + 1, "quit")]
    if fam == "cisco":
        if row.startswith("address-family"):
            return [(depth + 1, "exit-address-family")]
        return [(depth + 1, "exit")]
    if fam == "asr":
        if row.startswith(("prefix-set", "as-path-set", "community-set")):
            return [(depth + 1, "end-set")]
        if row.startswith("if") and row.endswith("then"):
            return [(depth + 1, "endif")]
        if row.startswith("route-policy"):
            return [(depth + 1, "end-policy")]
        return [(depth + 1, "exit")]
    if fam == "exit":
        return [(depth + 1, "exit")]
    raise ValueError(fam)


def ref_stream(items, fam, depth=0, prefix=(), parent_row=None):
    """-> [(path tuple)] of every command in the order shown; depth == len(path) - 1"""
    return [p for p, _ in ref_stream_tagged(items, fam, depth, prefix, parent_row)]


def ref_stream_tagged(items, fam, depth=0, prefix=(), parent_row=None):
    """-> [(path, is_block_exit)]"""
    out = []
    for idx, (row, child) in enumerate(items):
        out.append((prefix + (row,), False))
        if child is not None:
            out.extend(ref_stream_tagged(child, fam, depth + 1, prefix + (row,), row))
            nxt = items[idx + 1][0] if idx + 1 < len(items) else None
            for (d, text) in exit_cmds(fam, row, parent_row, nxt, depth):
                out.append(((prefix + (row,) if d == depth + 1 else prefix) + (text,), True))
    return out


# role: commit -> only when committing; abort -> only when not committing; leave -> always;
# leave_c -> leaving needs a committed transaction (OcNOS refuses to leave with uncommitted changes); save -> when finalizing
SESSION = {
    "Huawei": (["system-view"], [("leave", "q"), ("save", "save")]),
    "Huawei CE6870": (["system-view"], [("commit", "commit"), ("leave", "q"), ("save", "save")]),
    "Huawei CE0000": (["system-view"], [("commit", "commit"), ("leave", "q"), ("save", "save")]),
    "Huawei NE40E": (["system-view"], [("commit", "commit"), ("leave", "q"), ("save", "save")]),
    "H3C": (["system-view"], [("save", "save force")]),
    "Cisco": (["conf t"], [("leave", "exit"), ("save", "copy running-config startup-config")]),
    "Cisco Catalyst": (["conf t"], [("leave", "exit"), ("save", "copy running-config startup-config")]),
    "Cisco Nexus": (["conf t"], [("leave", "exit"), ("save", "copy running-config startup-config")]),
    "Cisco ASR": (["configure exclusive"], [("commit", "commit"), ("leave", "exit")]),
    "Arista": (["conf s"], [("commit", "commit"), ("abort", "abort"), ("save", "write memory")]),
    "Aruba": (["conf t"], [("leave", "end"), ("commit", "commit apply"), ("save", "write memory")]),
    "B4com": (["conf t"], [("commit", "commit"), ("leave_c", "end"), ("save", "write")]),
    "B4com B4T-CS2148P": (["conf t"], [("leave", "end"), ("save", "write")]),
    "PC": ([], []),
    # Aruba per-AP environment (rows of the `ap-env` block context): no configuration mode; saving is the commit
    "Aruba/ap-env": ([], [("commit", "write memory")]),
}
MODEL_VENDOR = {m: v for v, m in g.BLOCK_HW}
MODEL_VENDOR.update({"Huawei CE0000": "huawei", "Cisco Catalyst": "cisco"})


def session(model, do_commit, do_finalize, context=None):
    if model == "Aruba" and (context or {}).get("block") == "ap-env":
        model = "Aruba/ap-env"
    before, after = SESSION[model]
    out = []
    for role, cmd in after:
        if (role == "leave" or (role in ("commit", "leave_c") and do_commit) or (role == "abort" and not do_commit)
                or (role == "save" and do_finalize)):
            out.append(cmd)
    return list(before), out


# ---------------------------------------------------------------------------------------------------------------------
# deploy rules: own matcher
def _params_of(rule):
    qs = []
    for q, a in rule.dialogs:
        is_re = len(q) >= 2 and q.startswith("/") and q.endswith("/")
        qs.append((q[1:-1] if is_re else q, a, is_re))
    return float(rule.params.get("timeout", 30)), qs


def ref_deploy_params(rules, path):
    """(timeout, [(question, answer, is_regexp)]) of the rule matching the block path `path`, or None when none matches.
    Reading of the statement (the one the shipped deploy rulebooks rely on, e.g. top-level `undo peer *` for rows under
    `bgp`): the path is walked row by row; a row matched by a rule of the current level descends into that rule's children;
    a row that matches no rule of the current level is skipped and the rule level stays; the command carries the parameters
    of the rule of the current level that matches its own row (the last of the path).
    Raises ValueError when sibling rules overlap on a row of the path (outside the scope of the property)."""
    level = rules
    for n, row in enumerate(path):
        hit = [r for r in level if g.tokens_match(r.tokens, row)]
        if len(hit) > 1:
            raise ValueError("sibling deploy rules overlap on %r" % row)
        if n == len(path) - 1:
            return _params_of(hit[0]) if hit else None
        if hit:
            level = hit[0].children
    return None


def rand_deploy_text(rnd):
    def params():
        s = ""
        if rnd.random() < 0.8:
            s += " %%timeout=%d" % rnd.choice([5, 40, 55, 70, 120, 600])
        return s

    def dialogs(ind):
        out = []
        if rnd.random() < 0.4:
            out.append(ind + "dialog: Continue? [Y/N]: ::: Y")
        if rnd.random() < 0.25:
            out.append(ind + "dialog: /are you sure\\?/ ::: yes")
        return out

    lines = []
    top = ["a *", "b *", "c", "d *", "e *", "blk *", "undo a *", "undo blk *", "quit", "commit", "xpl * *", "exit",
           "address-family *", "system-view", "save", "no a *"]
    rnd.shuffle(top)
    for r in top[:rnd.randint(2, 9)]:
        lines.append(r + params())
        lines += dialogs("    ")
        if r in ("blk *", "xpl * *", "address-family *") and rnd.random() < 0.8:
            sub = ["a *", "b *", "c", "sub *", "undo a *", "undo b *", "quit", "~"]
            rnd.shuffle(sub)
            sub = sub[:rnd.randint(1, 4)]
            if "~" in sub:
                sub = ["~"]
            for s in sub:
                lines.append("    " + s + params())
                lines += dialogs("        ")
                if s == "sub *" and rnd.random() < 0.8:
                    for s2 in rnd.sample(["a *", "b *", "undo a *", "quit"], rnd.randint(1, 3)):
                        lines.append("        " + s2 + params())
                        lines += dialogs("            ")
    return "\n".join(lines) + "\n"


# ---------------------------------------------------------------------------------------------------------------------
# synthetic patch trees
VOCAB = {
    "huawei": dict(blocks=["interface e1", "bgp 1", "xpl route-filter F", "xpl prefix-set P", "rsa peer-public-key k",
                           "public-key-code begin", "if x then", "elseif y then", "else", "if z then", "blk 1", "sub 1"],
                   leaves=["a 1", "undo b 1", "description x y", "apply a", "c 2"]),
    "cisco": dict(blocks=["interface e1", "router bgp 1", "address-family ipv4", "address-family ipv6 unicast", "blk 1", "sub 1"],
                  leaves=["a 1", "no b 1", "description x y", "neighbor 1 activate"]),
    "asr": dict(blocks=["interface e1", "router bgp 1", "prefix-set P", "as-path-set A", "community-set C", "if x then",
                        "route-policy R", "blk 1", "sub 1"],
                leaves=["a 1", "no b 1", "description x y", "pass"]),
    "exit": dict(blocks=["interface e1", "router bgp 1", "vlan 2", "blk 1", "sub 1"], leaves=["a 1", "no b 1", "description x y"]),
    "none": dict(blocks=["interface e1", "section 1", "blk 1", "sub 1"], leaves=["a 1", "- b 1", "description x y"]),
}


def rand_tree(rnd, fam, depth=0, max_depth=4, parent=None):
    voc = VOCAB[fam]
    n = rnd.randint(1, 4) if depth == 0 else rnd.randint(0, 3)
    rows = []
    seen = set()
    for _ in range(n):
        is_block = depth < max_depth - 1 and rnd.random() < (0.6 if depth < 2 else 0.4)
        if fam == "huawei" and parent and parent.startswith("xpl route-filter") and rnd.random() < 0.8:
            row = rnd.choice(["if x then", "elseif y then", "else", "if z then", "apply a"])
            is_block = row != "apply a" and depth < max_depth - 1
        else:
            row = rnd.choice(voc["blocks"] if is_block else voc["leaves"])
        if row in seen:
            continue
        seen.add(row)
        if is_block:
            rows.append([row, rand_tree(rnd, fam, depth + 1, max_depth, row)])
        else:
            rows.append([row, None])
    return rows


def tree_depth(nested):
    return 0 if not nested else 1 + max((tree_depth(c) if c else 0) for _, c in nested)


def _has_block(nested):
    return any(c is not None for _, c in nested)


# ---------------------------------------------------------------------------------------------------------------------
def _formatters(hw):
    from annet.vendors import registry_connector
    v = registry_connector.get().match(hw)
    return v.make_formatter(), v.make_formatter(indent="")


def _lines(text, indent="  "):
    out = []
    for ln in text.split("\n") if text else []:
        st = ln.lstrip(" ")
        out.append(((len(ln) - len(st)) // len(indent), st))
    return out


def _cmd_tuple(c):
    qs = [(q.question, q.answer, bool(q.is_regexp)) for q in (c.questions or [])]
    return (getattr(c, "level", None), c.cmd, c.timeout, qs)


def pt_build_ctx(nested, tagged, inherited=None):
    """PatchTree whose top-level rows listed in `tagged` (and everything under them) carry the block context `ap-env`: commands
    of such rows are sent through another session wrapper (the deploy rule `~ %ifcontext=block:ap-env %apply_logic=...`)"""
    from annet.annlib.patching import PatchTree
    t = PatchTree()
    for i, (row, ch) in enumerate(nested):
        ctx = inherited if inherited is not None else ({"block": "ap-env"} if i in tagged else {})
        if ch is None:
            t.add(row, dict(ctx))
        else:
            t.add_block(row, pt_build_ctx(ch, (), ctx), dict(ctx))
    return t


def check_tree(model, nested, deploy_text, flags, whole_list_no_commit=False, tagged=None):
    """all C09 checks for one patch tree on one hardware and one (do_commit, do_finalize) -> list of failures"""
    from annet import deploy
    from annet.rulebook.deploying import compile_deploying_text
    fails = []
    vendor = MODEL_VENDOR[model]
    fam = g.VENDORS[vendor]["fam"]
    hw = g.hw_of(model)
    shown_fmt, cmd_fmt = _formatters(hw)
    pt = g.pt_build(nested) if tagged is None else pt_build_ctx(nested, set(tagged))
    ref = ref_stream(nested, fam)
    ref_lines = [(len(p) - 1, p[-1]) for p in ref]

    shown = _lines(shown_fmt.patch(pt))
    if shown != ref_lines:
        fails.append(dict(key="bounded:C09:shown-patch!=reference-stream", text="formatter.patch differs from rows + vendor block exits",
                          expected=ref_lines, actual=shown))
    cmd_paths = cmd_fmt.cmd_paths(pt)
    paths = list(cmd_paths.keys())
    got_lines = [(len(p) - 1, p[-1]) for p in paths]
    if got_lines != shown:
        dup = len(set(ref)) != len(ref)
        key = "bounded:C09:cmd_paths!=shown-patch"
        if dup and shown == ref_lines:
            tagged = ref_stream_tagged(nested, fam)
            dups = [(p, e) for p, e in tagged if ref.count(p) > 1]
            kind = "block-exit" if any(e for _, e in dups) else ("force-commit" if all(p[-1] == "commit" for p, _ in dups) else "row")
            key = "bounded:C09:cmd_paths-loses-repeated-command:" + kind
        fails.append(dict(key=key, text="[(depth, text)] of cmd_paths differs from the lines of the shown patch"
                                        + (" (two commands of the patch have the same block path; the path-keyed dict keeps one)" if dup else ""),
                          expected=shown, actual=got_lines))
    elif paths != ref:
        fails.append(dict(key="bounded:C09:cmd_paths-block-path!=reference", text="block path of a command differs",
                          expected=[list(p) for p in ref], actual=[list(p) for p in paths]))

    do_commit, do_finalize = flags
    rules = None
    if deploy_text is not None:
        compiled = compile_deploying_text(deploy_text, vendor)
        rules = g.parse_rules(deploy_text)
        with mock.patch.object(deploy, "get_rulebook", lambda _hw: {"deploying": compiled}):
            cmds = list(deploy.apply_deploy_rulebook(hw, cmd_paths, do_finalize=do_finalize, do_commit=do_commit))
    else:
        cmds = list(deploy.apply_deploy_rulebook(hw, cmd_paths, do_finalize=do_finalize, do_commit=do_commit))
    if not paths:
        if cmds:
            fails.append(dict(key="bounded:C09:commands-sent-for-empty-patch", text="an empty patch produced commands",
                              expected=[], actual=[c.cmd for c in cmds]))
        return fails
    ctxs = list(cmd_paths.values())
    groups = []       # maximal runs of commands that share one session wrapper
    for i in range(len(paths)):
        sess = session(model, do_commit, do_finalize, ctxs[i])
        skey = (tuple(sess[0]), tuple(sess[1]))
        if groups and groups[-1][0] == skey:
            groups[-1][1].append(i)
        else:
            groups.append((skey, [i]))
    exp_full, roles = [], []
    for skey, idxs in groups:
        exp_full += [(0, c) for c in skey[0]] + [(len(paths[i]) - 1, paths[i][-1]) for i in idxs] + [(0, c) for c in skey[1]]
        roles += [None] * len(skey[0]) + idxs + [None] * len(skey[1])
    got_full = [(getattr(c, "level", None), c.cmd) for c in cmds]
    body_ok = got_full == exp_full
    if not body_ok and len(groups) > 1:
        fails.append(dict(key="bounded:C09:command-list!=wrapped-groups", text="command list differs from the per-session groups "
                          "before + body + after", expected=exp_full, actual=got_full))
    elif not body_ok:
        exp_before, exp_after = list(groups[0][0][0]), list(groups[0][0][1])
        nb, n = len(exp_before), len(paths)
        got_before = [c.cmd for c in cmds[:nb]]
        body = cmds[nb:nb + n]
        got_after = [c.cmd for c in cmds[nb + n:]]
        exp_body = [(len(p) - 1, p[-1]) for p in paths]
        got_body = [(getattr(c, "level", None), c.cmd) for c in body]
        allowed = {c for _, c in SESSION[model][1]} | {c for _, c in SESSION.get(model + "/ap-env", ([], []))[1]}
        if got_before != exp_before:
            fails.append(dict(key="bounded:C09:wrapper:enter-commands", text="commands before the patch body are not the vendor's enter sequence",
                              expected=exp_before, actual=[c.cmd for c in cmds[:max(nb, 1)]]))
        if got_body != exp_body:
            key = "bounded:C09:deploy-body!=cmd_paths"
            if [t for _, t in got_body] == [t for _, t in exp_body]:
                key = "bounded:C09:deploy-level!=depth"
            fails.append(dict(key=key, text="(level, command) between the wrapper lists differs from cmd_paths",
                              expected=exp_full, actual=got_full))
        elif got_after != exp_after:
            if not do_commit and any(c.startswith("commit") for c in got_after):
                key = "bounded:C09:commit-sent-when-do_commit-false"
            elif set(got_after) - allowed:
                key = "bounded:C09:wrapper:foreign-command-after-body"
            else:
                key = "bounded:C09:wrapper:after-commands"
            fails.append(dict(key=key, text="commands after the patch body differ from the vendor's commit/leave/save sequence",
                              expected=exp_after, actual=got_after))
        elif got_full != exp_full:
            fails.append(dict(key="bounded:C09:wrapper:level", text="a wrapper command is not at level 0", expected=exp_full, actual=got_full))
    if not do_commit:
        sent = [c.cmd for c, r in zip(cmds, roles + [None] * len(cmds)) if c.cmd.startswith("commit") and (whole_list_no_commit or r is None or not body_ok)]
        if sent and not any(f["key"] == "bounded:C09:commit-sent-when-do_commit-false" for f in fails):
            fails.append(dict(key="bounded:C09:commit-sent-when-do_commit-false", text="a commit command is sent although committing is disabled",
                              expected=[], actual=[c.cmd for c in cmds]))

    if rules is not None and body_ok:
        for r, c in zip(roles, cmds):
            is_wrapper = r is None
            p = (c.cmd,) if is_wrapper else paths[r]
            try:
                exp = ref_deploy_params(rules, p)
            except ValueError:
                continue
            if exp is None:
                if is_wrapper:
                    continue      # vendor default of the session command: no claim
                exp = (30.0, [])
            got = (float(c.timeout) if c.timeout is not None else None, [(q.question, q.answer, bool(q.is_regexp)) for q in (c.questions or [])])
            if got != exp:
                key = "bounded:C09:timeout-or-dialog!=matching-rule"
                fails.append(dict(key=key, text="timeout/dialog of command %r differ from the rule chain matching its block path" % (list(p),),
                                  expected=dict(path=list(p), timeout=exp[0], questions=exp[1]),
                                  actual=dict(path=list(p), timeout=got[0], questions=got[1])))
                break
    return fails


# ---------------------------------------------------------------------------------------------------------------------
def check_job(model, old, new, dont_commit):
    """the production caller: CliDeployerJob.parse_result must hand formatter.cmd_paths(patch) and do_commit = not dont_commit
    to the driver, unchanged, and list exactly those commands"""
    from annet import api, rulebook
    from annet import deploy
    hw = g.hw_of(model)
    got = {}

    class Driver:
        def apply_deploy_rulebook(self, hw_, cmd_paths, do_finalize=True, do_commit=True):
            got["paths"] = list(cmd_paths.keys())
            got["flags"] = (do_commit, do_finalize)
            return deploy.apply_deploy_rulebook(hw_, cmd_paths, do_finalize=do_finalize, do_commit=do_commit)

        def build_exit_cmdlist(self, hw_):
            return []

    class Dev:
        hostname = "h1"
        fqdn = "h1.example"

        def __init__(self):
            self.hw = hw

        def __hash__(self):
            return 1

    dev = Dev()
    res = mock.Mock()
    res.device = dev
    res.err = None
    res.filter_acl_rules = None
    res.get_old = lambda safe: g.to_tree(old)
    res.get_new = lambda safe: g.to_tree(new)
    res.get_acl_rules = lambda safe: None
    args = mock.Mock()
    args.acl_safe = False
    args.dont_commit = dont_commit
    job = api.CliDeployerJob(dev, args)
    with mock.patch.object(deploy, "get_deployer", lambda: Driver()):
        job.parse_result(res)
    rb = rulebook.get_rulebook(hw)
    pt = g.real_patch(hw, rb, g.to_tree(old), g.to_tree(new), do_commit=not dont_commit)
    vendor = MODEL_VENDOR[model]
    ref = ref_stream(g.pt_nested(pt), g.VENDORS[vendor]["fam"])
    fails = []
    if ref and len(set(ref)) == len(ref):
        if got.get("paths") != ref:
            fails.append(dict(key="bounded:C09:parse_result-paths!=patch", text="CliDeployerJob hands other command paths to the driver",
                              expected=[list(p) for p in ref], actual=[list(p) for p in got.get("paths", [])]))
        elif got.get("flags") != (not dont_commit, True):
            fails.append(dict(key="bounded:C09:parse_result-flags", text="CliDeployerJob passes wrong do_commit/do_finalize",
                              expected=[not dont_commit, True], actual=list(got.get("flags"))))
        else:
            lines = [ln for ln in job.cmd_lines[2:] if ln != ""]
            if lines != [p[-1] for p in ref]:
                fails.append(dict(key="bounded:C09:parse_result-cmd_lines", text="cmd_lines differ from the commands",
                                  expected=[p[-1] for p in ref], actual=lines))
            sent = [(c.level, c.cmd) for c in job.deploy_cmds[dev]]
            want = [(len(p) - 1, p[-1]) for p in ref]
            pos = 0
            for item in sent:       # the patch commands must appear in order inside the sent list (wrappers in between)
                if pos < len(want) and item == want[pos]:
                    pos += 1
            if pos != len(want) or len(sent) < len(want):
                fails.append(dict(key="bounded:C09:parse_result-deploy_cmds", text="deploy_cmds body differs from the patch",
                                  expected=[(len(p) - 1, p[-1]) for p in ref], actual=sent))
    return fails


# ---------------------------------------------------------------------------------------------------------------------
def cases(tier, seed):
    """deterministic stream of json-able cases"""
    n_tree = 60 if tier == "quick" else 700
    n_patch = 40 if tier == "quick" else 500
    n_dep = 60 if tier == "quick" else 800
    for vendor, model in g.BLOCK_HW:
        fam = g.VENDORS[vendor]["fam"]
        rnd = g.rng(seed, "c09tree", model)
        for _ in range(n_tree):
            yield dict(kind="tree", model=model, tree=rand_tree(rnd, fam), deploy=None)
        rnd = g.rng(seed, "c09patch", model)
        for _ in range(n_patch):
            old, new = g.rand_pair_x(rnd)
            yield dict(kind="patch", model=model, old=old, new=new, deploy=None)
    # deploy rulebooks with disjoint sibling rules
    for vendor, model in [("huawei", "Huawei"), ("huawei", "Huawei CE6870"), ("cisco", "Cisco"), ("arista", "Arista")]:
        rnd = g.rng(seed, "c09deploy", model)
        for _ in range(n_dep):
            old, new = g.rand_pair_x(rnd)
            yield dict(kind="patch", model=model, old=old, new=new, deploy=rand_deploy_text(rnd))
    # rows of two session wrappers interleaved in one patch (Aruba: the `ap-env` block context has its own apply logic): the
    # commands must stay in patch order, each maximal run inside its own wrapper
    rnd = g.rng(seed, "c09ctx", "Aruba")
    for _ in range(n_tree):
        tree = rand_tree(rnd, "exit", max_depth=3)
        k = len(tree)
        # only leaf rows are tagged: the shipped rule `~ %ifcontext=block:ap-env` has no children rules, so commands nested under
        # such a row fall back to the default rule (the per-AP environment of the shipped aruba rulebook is flat)
        tagged = sorted(i for i in range(k) if tree[i][1] is None and rnd.random() < 0.6)
        yield dict(kind="ctx", model="Aruba", tree=tree, tagged=tagged)
    for k in (2, 3, 4):      # every tagging of k leaf rows
        for mask in range(1, 2 ** k - 1):
            yield dict(kind="ctx", model="Aruba", tree=[["row%d x" % i, None] for i in range(k)],
                       tagged=[i for i in range(k) if mask >> i & 1])
    # shipped corpus through the shipped rulebooks
    for s in g.corpus():
        if s["model"] in SESSION:
            yield dict(kind="corpus", name=s["name"])
    for i, s in enumerate(g.corpus()):
        if s["model"] in SESSION and (tier != "quick" or i % 4 == 0):
            yield dict(kind="job", name=s["name"], dont_commit=bool(i % 3 == 0))


def _corpus_sample(name):
    for s in g.corpus():
        if s["name"] == name:
            return s
    raise KeyError(name)


def run_case(case):
    """-> (failures, evaluations, nontrivial)"""
    from annet import rulebook
    fails = []
    ev = 0
    nontrivial = False
    if case["kind"] == "tree":
        nontrivial = tree_depth(case["tree"]) >= 2
        for fl in FLAGS:
            ev += 1
            fails += check_tree(case["model"], case["tree"], case["deploy"], fl)
    elif case["kind"] == "ctx":
        nontrivial = 0 < len(case["tagged"]) < len(case["tree"])
        for fl in FLAGS:
            ev += 1
            fails += check_tree(case["model"], case["tree"], None, fl, tagged=case["tagged"])
    elif case["kind"] == "patch":
        vendor = MODEL_VENDOR[case["model"]]
        hw = g.hw_of(case["model"])
        rb = g.compile_rb(vendor, g.R1X)
        for fl in FLAGS:
            pt = g.real_patch(hw, rb, g.to_tree(case["old"]), g.to_tree(case["new"]), do_commit=fl[0])
            nested = g.pt_nested(pt)
            nontrivial = nontrivial or tree_depth(nested) >= 2
            ev += 1
            fails += check_tree(case["model"], nested, case["deploy"], fl, whole_list_no_commit=True)
    elif case["kind"] == "corpus":
        s = _corpus_sample(case["name"])
        hw = g.hw_of(s["model"])
        rb = rulebook.get_rulebook(hw)
        for fl in FLAGS:
            pt = g.real_patch(hw, rb, g.to_tree(s["old"]), g.to_tree(s["new"]), do_commit=fl[0])
            nested = g.pt_nested(pt)
            nontrivial = nontrivial or _has_block(nested)
            ev += 1
            fails += check_tree(s["model"], nested, None, fl)
    elif case["kind"] == "job":
        s = _corpus_sample(case["name"])
        ev += 1
        nontrivial = True
        fails += check_job(s["model"], s["old"], s["new"], case["dont_commit"])
    return fails, ev, nontrivial


def run(tier="quick", seed=0, part=0, nparts=1):
    ev = 0
    nontrivial = set()
    failures = []
    per_key = {}
    samples = []
    for i, case in enumerate(cases(tier, seed)):
        if i % nparts != part:
            continue
        fails, n, nt = run_case(case)
        ev += n
        if nt:
            nontrivial.add(h(case))
        if part == 0 and len(samples) < 2 and nt and case["kind"] in ("tree", "patch"):
            samples.append(case)
        for f in fails:
            if per_key.get(f["key"], 0) < 3:
                per_key[f["key"]] = per_key.get(f["key"], 0) + 1
                f = dict(f)
                f["case"] = case
                failures.append(_j(f))
    return dict(evaluations=ev, nontrivial=sorted(nontrivial), failures=failures, samples=samples,
                rule="per block-structured hardware (12 models of huawei, h3c, cisco, iosxr, nexus, arista, aruba, b4com, pc): seeded random "
                     "synthetic PatchTrees (distinct sibling rows, depth <= 4, vendor exit-variant rows, empty blocks) and PatchTrees "
                     "from make_patch over a small rulebook x random (old,new); x (do_commit,do_finalize) in {0,1}^2; random deploy "
                     "rulebooks with disjoint sibling rules (timeouts, dialogs, 3 levels) on 4 models; the shipped corpus through the "
                     "shipped rulebooks and through CliDeployerJob.parse_result; evaluation = one apply_deploy_rulebook call compared; "
                     "non-trivial = tree with nested blocks (depth >= 2) / corpus patch with a block; distinct by case hash",
                bound="trees depth <= 4, <= 4 siblings; configs over a 20-row alphabet; %d cases" % (i + 1))


def _j(x):
    if isinstance(x, dict):
        return {str(k): _j(v) for k, v in x.items()}
    if isinstance(x, (list, tuple)):
        return [_j(v) for v in x]
    return x


def replay(case):
    fails, _, _ = run_case(case)
    if not fails:
        return dict(ok=True, expected=None, actual=None)
    return dict(ok=False, expected=_j(fails[0]["expected"]), actual=_j(fails[0]["actual"]), key=fails[0]["key"])
