"""C08 bounded layer: ordering follows the ordering rulebook and only permutes lines.

Parts (case kinds):
  rank    synthetic ordering rulebooks (disjoint sibling languages, depth <= 3, %order_reverse pins, %global) x patches of the
          real make_patch over two small patching rulebooks and random (old,new): ref_rank(c1) < ref_rank(c2) => c1 before c2;
          removal before re-creation of one (rule,key); multiset(paths(sorted patch)) == multiset(paths(unsorted patch))
          the rulebooks contain %order_reverse pins written with the negation word (`undo a %order_reverse`) and without it
          (`x %order_reverse`, pinning the command `x N` that removes the negated config row `undo x N`); whether a command is a
          removal is known from the inputs (it is not a row of the new configuration at its place)
  shipped_pin  huawei.order `portswitch %order_reverse` under `interface *` against its neighbours, ranks read from the order file
  sort    PatchTree.sort on synthetic trees with arbitrary sort keys: stable sort by key at every depth, nothing lost
  shipped shipped *.order files x corpus tests/annet/test_patch/*.yaml: deleting (or inserting) an unrelated top-level row in
          both old and new leaves the relative order of the remaining commands unchanged
  oc      Orderer.order_config on every vendor: shipped rulebooks (Orderer.from_hw) x corpus configs and synthetic configs,
          and synthetic rulebooks: permutes rows within their block only, idempotent at every depth, rows that no rule
          mentions keep their relative order

ref_rank is the reading of the statement (not of the code): the rules that apply inside a block are the children of the rule
matching the block header plus every %global rule of the enclosing levels, earlier = earlier line of the rulebook file;
a command (or a removal pinned by a %order_reverse rule) matched by the rule on line L has rank (1, L); a removal matched only
through the negated form of the rule on line L has rank (0, -L) (first, mirrored); unmatched commands are unranked."""
import re
from collections import Counter
from unittest import mock

from bounded.common import setup_annet, h
from bounded import gen_rb as g

setup_annet()

R2 = g.R1.replace("a *\n", "a 1\na 2\n").replace("    a 1\na 2\n", "    a 1\n    a 2\n").replace("        a 1\n    a 2\n", "        a 1\n        a 2\n")
RULS = {"R1": g.R1, "R2": R2}


def rul_text(name, neg):
    """the patching rulebook `name` plus the family x of NEGATED config rows: the config row is `<neg> x N`, its removal is
    the command `x N` (what `portswitch` is to `undo portswitch` on huawei)"""
    return RULS[name].replace("blk *\n", "%s x *\nblk *\n    %s x *\n" % (neg, neg))


def add_x(rnd, old, new, neg, p=0.45):
    """sprinkle the negated config rows `<neg> x 1|2` over old / new (top level and inside blk blocks)"""
    def one(o_rows, n_rows):
        for k in ("1", "2"):
            row = "%s x %s" % (neg, k)
            x = rnd.random()
            if x < p * 0.5:
                o_rows.insert(rnd.randint(0, len(o_rows)), [row, []])
            elif x < p * 0.8:
                n_rows.insert(rnd.randint(0, len(n_rows)), [row, []])
            elif x < p:
                o_rows.insert(rnd.randint(0, len(o_rows)), [row, []])
                n_rows.insert(rnd.randint(0, len(n_rows)), [row, []])
    one(old, new)
    nd = dict((r, c) for r, c in new)
    for r, c in old:
        if r.startswith("blk") and r in nd:
            one(c, nd[r])
    return old, new


# ---------------------------------------------------------------------------------------------------------------------
# synthetic ordering rulebooks
def rand_order_text(rnd, neg):
    def level(depth, taken_global):
        """-> list of blocks of lines (each block = one rule with its nested lines)"""
        entries = []
        fams = ["a", "b", "c"] + (["d"] if depth == 0 else [])
        for f in fams:
            if f in taken_global:
                continue
            mode = rnd.choice(["none", "fam", "fam", "split"]) if f in ("a", "b") else rnd.choice(["none", "fam", "fam"])
            glob = ""
            if mode == "fam" and depth < 2 and rnd.random() < 0.2:
                glob = " %global"
                taken_global = taken_global | {f}
            if mode == "fam":
                entries.append([f + glob])
                if rnd.random() < 0.3:
                    entries.append(["%s %s %%order_reverse%s" % (neg, f, glob if rnd.random() < 0.5 else "")])
            elif mode == "split":
                for k in ("1", "2"):
                    if rnd.random() < 0.8:
                        entries.append(["%s %s" % (f, k)])
                        if rnd.random() < 0.2:
                            entries.append(["%s %s %s %%order_reverse" % (neg, f, k)])
            elif rnd.random() < 0.15:
                entries.append(["%s %s %%order_reverse" % (neg, f)])
        if depth < 2:
            # family x (negated config rows): the rule is written WITH the negation word (`<neg> x`), the pin of the removal
            # command `x N` is written WITHOUT it (`x %order_reverse`, like huawei `portswitch %order_reverse`)
            mode = rnd.choice(["none", "pin", "pin", "rule", "rule+pin", "rule+pin", "splitpin"])
            if mode in ("rule", "rule+pin"):
                entries.append(["%s x" % neg])
            if mode in ("pin", "rule+pin"):
                entries.append(["x %order_reverse"])
            if mode == "splitpin":
                for k in ("1", "2"):
                    if rnd.random() < 0.8:
                        entries.append(["x %s %%order_reverse" % k])
        blk = "blk" if depth == 0 else ("sub" if depth == 1 else None)
        if blk:
            mode = rnd.choice(["none", "fam", "fam", "split"]) if depth == 0 else rnd.choice(["none", "fam", "fam"])
            names = {"none": [], "fam": [blk], "split": [blk + " 1", blk + " 2"]}[mode]
            for nm in names:
                sub = level(depth + 1, taken_global)
                entries.append([nm] + ["    " + ln for b in sub for ln in b])
            if mode != "split" and rnd.random() < 0.3:
                entries.append(["%s %s %%order_reverse" % (neg, blk)])
        rnd.shuffle(entries)
        return entries

    return "\n".join(ln for b in level(0, frozenset()) for ln in b) + "\n"


class ScopeError(Exception):
    pass


def _is_pin(r):
    return g.truthy(r.params.get("order_reverse", "0"))


def _is_global(r):
    return g.truthy(r.params.get("global", "0"))


def _negated_form(tokens, neg):
    return tokens[1:] if tokens[0] == neg and len(tokens) > 1 else [neg] + tokens


def ref_rank(row, rules, neg, removal=None):
    """rank of a patch command among its siblings under the applicable rule list `rules`; None = unranked.
    removal: is the command a removal?  Known from the INPUTS (the command is not a row of the new configuration at its place);
    when not given, from the text (starts with the negation word).
      * a removal whose text a %order_reverse rule matches is pinned at that rule's position: (1, line) -- whether the rule is
        written with the negation word (`undo a %order_reverse` pins `undo a 1`) or without (`x %order_reverse` pins `x 1`,
        the removal of the config row `undo x 1`);
      * otherwise a removal matched through the negated form of a rule goes first, mirrored: (0, -line);
      * a command that is not a removal is placed by the plain rule that matches its text: (1, line);
      * anything else (incl. a removal that an unpinned rule matches only by its direct text, and a non-removal that a rule
        matches only through its negated form) is left unranked: the statement is silent about it."""
    if removal is None:
        removal = row.startswith(neg + " ")
    if removal:
        pins = [r for r in rules if _is_pin(r) and g.tokens_match(r.tokens, row)]
        if len(pins) > 1:
            raise ScopeError("two pins match %r" % row)
        if pins:
            return (1, pins[0].line)
        cands = [r for r in rules if not _is_pin(r) and g.tokens_match(_negated_form(r.tokens, neg), row)]
        if len(cands) > 1:
            raise ScopeError("sibling rules overlap on %r" % row)
        return (0, -cands[0].line) if cands else None
    cands = [r for r in rules if not _is_pin(r) and g.tokens_match(r.tokens, row)]
    if len(cands) > 1:
        raise ScopeError("sibling rules overlap on %r" % row)
    return (1, cands[0].line) if cands else None


def child_rules(row, rules, neg, removal=None):
    """rules that apply inside the block whose header is `row`"""
    if removal if removal is not None else row.startswith(neg + " "):
        return []
    own = [r for r in rules if not _is_pin(r) and g.tokens_match(r.tokens, row)]
    if len(own) > 1:
        raise ScopeError("sibling rules overlap on %r" % row)
    out = list(own[0].children) if own else []
    out += [r for r in rules if _is_global(r) and r not in out]
    return sorted(out, key=lambda r: r.line)


def _patching_rule(prules, row, neg):
    base = row[len(neg) + 1:] if row.startswith(neg + " ") else row
    for cand in (base, neg + " " + row):
        for r in prules or []:
            if g.tokens_match(r.tokens, cand):
                return r
    return None


def check_ranked(nested, rules, neg, path=(), prules=None, new_cfg=None):
    """-> list of (key, text, expected, actual) for the patch block `nested` ([[row, child|None], ...]);
    prules: the patching rules of this block (own reading of the patching rulebook), used to name the failure class only;
    new_cfg: the rows of the NEW configuration at this place ([[row, children], ...]): a command that is not among them is a
    removal"""
    fails = []
    rows = [r for r, _ in nested]
    new_rows = dict((r, c) for r, c in (new_cfg or []))
    removal = [(r not in new_rows) if new_cfg is not None else None for r in rows]
    ranks = [ref_rank(r, rules, neg, rm) for r, rm in zip(rows, removal)]
    first_line = min((r.line for r in rules), default=None)
    done = False
    for j in range(len(rows)):
        for i in range(j):
            if ranks[i] is not None and ranks[j] is not None and ranks[j] < ranks[i] and not done:
                done = True
                key = "bounded:C08:patch-order:rank-violated"
                if ranks[j][0] == 0 and ranks[j][1] == -first_line and ranks[i][0] == 1:
                    pi, pj = _patching_rule(prules, rows[i], neg), _patching_rule(prules, rows[j], neg)
                    key = "bounded:C08:patch-order:removal-under-first-rule-not-before-commands"
                    key += ":same-patching-rule" if pi is not None and pi is pj else ":other-patching-rule"
                fails.append((key, "in block %r the command %r (rank %r) comes before %r (rank %r)" % (list(path), rows[i], ranks[i], rows[j], ranks[j]),
                              "%r before %r" % (rows[j], rows[i]), rows))
    # one (rule, key): the removal precedes the re-creation (rule `c`, key ()); a pin may say otherwise
    und = neg + " c"
    if und in rows and not any(_is_pin(r) and g.tokens_match(r.tokens, und) for r in rules):
        rec = [k for k, r in enumerate(rows) if r.split()[0] == "c"]
        if rec and rec[0] < rows.index(und):
            fails.append(("bounded:C08:patch-order:re-creation-before-removal", "in block %r %r comes before %r" % (list(path), rows[rec[0]], und),
                          "%r first" % und, rows))
    for (row, child), rm in zip(nested, removal):
        if child:
            pr = _patching_rule(prules, row, neg)
            fails += check_ranked(child, child_rules(row, rules, neg, rm), neg, path + (row,), pr.children if pr else None,
                                  (new_rows.get(row, []) if new_cfg is not None else None))
    return fails


def _nested_keys(pt):
    return [[str(i.row), list(i.sort_key), (None if i.child is None else _nested_keys(i.child))] for i in pt.itms]


def check_rank_case(case):
    from annet.annlib import patching
    vendor = case["vendor"]
    neg = g.VENDORS[vendor]["neg"]
    hw = g.hw_of(g.VENDORS[vendor]["models"][0])
    rb = g.compile_rb(vendor, rul_text(case["rul"], neg), case["order"])
    rules = g.parse_rules(case["order"])
    old, new = g.to_tree(case["old"]), g.to_tree(case["new"])
    pt = g.real_patch(hw, rb, old, new)
    nested = g.pt_nested(pt)
    fails = []
    try:
        fails += check_ranked(nested, sorted(rules, key=lambda r: r.line), neg, (), g.parse_rules(rul_text(case["rul"], neg)), case["new"])
    except ScopeError:
        return [], False
    with mock.patch.object(patching.PatchTree, "sort", lambda self: None):
        unsorted_pt = g.real_patch(hw, rb, old, new)
    a, b = Counter(g.pt_paths(g.pt_nested(unsorted_pt))), Counter(g.pt_paths(nested))
    if a != b:
        fails.append(("bounded:C08:patch-sort-changes-path-multiset", "sorting the patch lost / duplicated / moved a command across blocks",
                      sorted(map(list, a.elements())), sorted(map(list, b.elements()))))
    top_new = {r for r, _ in case["new"]}
    ranked = sum(1 for r, _ in nested if ref_rank(r, rules, neg, r not in top_new) is not None)
    return fails, ranked >= 2 and any(r not in top_new for r, _ in nested)


# ---------------------------------------------------------------------------------------------------------------------
def check_sort_case(case):
    """PatchTree.sort: each level is the stable sort by sort_key of what was there, children included"""
    from annet.annlib.patching import PatchTree

    def build(n):
        t = PatchTree()
        for row, key, ch in n:
            if ch is None:
                t.add(row, {}, tuple(key))
            else:
                t.add_block(row, build(ch), {}, tuple(key))
        return t

    def ref(n):
        out = []
        for item in n:      # stable insertion sort, written out
            k = len(out)
            while k > 0 and tuple(out[k - 1][1]) > tuple(item[1]):
                k -= 1
            out.insert(k, item)
        return [[r, list(key), (None if ch is None else ref(ch))] for r, key, ch in out]

    t = build(case["tree"])
    t.sort()
    got = _nested_keys(t)
    exp = ref(case["tree"])
    if got != exp:
        return [("bounded:C08:PatchTree.sort!=stable-sort", "PatchTree.sort is not the stable key sort of every level", exp, got)]
    return []


def rand_keyed_tree(rnd, depth=0):
    out = []
    for k in range(rnd.randint(1, 5)):
        key = [rnd.choice([-2, -1, 0, 0, 1, 2]), rnd.choice(["r1", "r2"]), rnd.random() < 0.5]
        ch = None
        if depth < 2 and rnd.random() < 0.4:
            ch = rand_keyed_tree(rnd, depth + 1)
        elif rnd.random() < 0.1:
            ch = []
        out.append(["row%d" % k if rnd.random() < 0.8 else "row0", key, ch])
    return out


# ---------------------------------------------------------------------------------------------------------------------
# shipped rulebooks x corpus: unrelated rows
def _patch_paths(hw, rb, old, new):
    return g.pt_paths(g.pt_nested(g.real_patch(hw, rb, g.to_tree(old), g.to_tree(new))))


def _same_relative_order(p0, p1):
    s0, s1 = set(p0), set(p1)
    a = [p for p in p0 if p in s1]
    b = [p for p in p1 if p in s0]
    return a == b, a, b


def check_shipped_case(case):
    from annet import rulebook
    s = _corpus_sample(case["name"])
    hw = g.hw_of(s["model"])
    rb = rulebook.get_rulebook(hw)
    old, new = s["old"], s["new"]
    p0 = _patch_paths(hw, rb, old, new)
    fails = []
    variants = []
    common = [r for r, ch in old if [r, ch] in new]
    for r in common[:case.get("max_del", 6)]:
        variants.append(("delete %r" % r, [x for x in old if x[0] != r], [x for x in new if x[0] != r]))
    z = ["zzqx-unrelated 1", []]
    for where in ("front", "end", "middle"):
        def ins(cfg):
            k = {"front": 0, "end": len(cfg), "middle": min(len(old), len(new)) // 2}[where]
            return cfg[:k] + [z] + cfg[k:]
        variants.append(("insert %r at the %s" % (z[0], where), ins(old), ins(new)))
    n = 0
    for what, o2, n2 in variants:
        n += 1
        try:
            p1 = _patch_paths(hw, rb, o2, n2)
        except Exception as e:      # a logic function that needs the deleted row
            continue
        ok, a, b = _same_relative_order(p0, p1)
        if not ok:
            fails.append(("bounded:C08:order-depends-on-unrelated-row", "%s in both old and new changes the relative order of the remaining commands" % what,
                          [list(p) for p in a], [list(p) for p in b]))
            break
    return fails, n, len(p0) >= 2


# ---------------------------------------------------------------------------------------------------------------------
# shipped %order_reverse rows: the pinned removal next to lower / higher ranked siblings
def shipped_rank(row, removal, rules, neg):
    """ref_rank over a shipped order file, by the conservative word matcher can_match: a rank is given only when exactly one
    rule of the relevant kind can match and no rule is undecidable (the shipped files resolve overlaps by a best-match weight
    that the statement does not describe)"""
    def hits(rs, form):
        res = [(r, can_match(form(r), row)) for r in rs]
        if any(m is None for _, m in res):
            return None
        return [r for r, m in res if m]
    pins = [r for r in rules if _is_pin(r)]
    plain = [r for r in rules if not _is_pin(r)]
    if removal:
        hp = hits(pins, lambda r: r.tokens)
        if hp is None or len(hp) > 1:
            return None
        if hp:
            return (1, hp[0].line)
        hn = hits(plain, lambda r: _negated_form(r.tokens, neg))
        if hn is None or len(hn) != 1:
            return None
        return (0, -hn[0].line)
    hd = hits(plain, lambda r: r.tokens)
    if hd is None or len(hd) != 1:
        return None
    return (1, hd[0].line)


def shipped_child_rules(row, rules, neg):
    own = [(r, can_match(r.tokens, row)) for r in rules if not _is_pin(r)]
    if any(m is None and r.children for r, m in own):
        return None
    out = [c for r, m in own if m for c in r.children] + [r for r in rules if _is_global(r)]
    return sorted(out, key=lambda r: r.line)


def check_shipped_pin_case(case):
    from annet import rulebook
    hw = g.hw_of(case["model"])
    vendor, neg = _neg_of_model(case["model"])
    rb = rulebook.get_rulebook(hw)
    nested = g.pt_nested(g.real_patch(hw, rb, g.to_tree(case["old"]), g.to_tree(case["new"])))
    fails = []
    n_ranked = [0]

    def walk(block, rules, new_cfg, path):
        if rules is None:
            return
        new_rows = dict((r, c) for r, c in new_cfg)
        rows = [r for r, _ in block]
        ranks = [shipped_rank(r, r not in new_rows, rules, neg) for r in rows]
        n_ranked[0] += sum(1 for x in ranks if x is not None)
        for j in range(len(rows)):
            for i in range(j):
                if ranks[i] is not None and ranks[j] is not None and ranks[j] < ranks[i] and not fails:
                    fails.append(("bounded:C08:patch-order:shipped-rank-violated",
                                  "shipped %s.order, block %r: %r (rank %r) comes before %r (rank %r)" % (vendor, list(path), rows[i], ranks[i], rows[j], ranks[j]),
                                  "%r before %r" % (rows[j], rows[i]), rows))
        for r, ch in block:
            if ch and r in new_rows:
                walk(ch, shipped_child_rules(r, rules, neg), new_rows[r], path + (r,))

    walk(nested, shipped_order_rules(vendor) or [], case["new"], ())
    return fails, n_ranked[0]


def shipped_pin_cases(tier, seed):
    """huawei.order, block `interface *`: `undo ip address * * %order_reverse`, then `portswitch %order_reverse` (a pin written
    without the negation word: it places the command `portswitch` that removes the config row `undo portswitch`), then ip binding,
    ipv6 enable, ...; cisco/iosxr `banner login %order_reverse` and huawei `slot * / cpu-defend-policy %order_reverse` are the
    first rule of their level (order 0), where pinned and mirrored positions coincide -- nothing to observe there"""
    rnd = g.rng(seed, "c08shippedpin")
    opt_old = [["ip address 10.0.0.1 255.255.255.0", []], ["ip address 10.0.1.1 255.255.255.0 sub", []], ["mac-address learning disable", []],
               ["description x", []], ["mtu 9000", []]]
    opt_new = [["ipv6 enable", []], ["ip binding vpn-instance V", []], ["description y", []], ["dhcpv6 relay destination 2001:db8::1", []]]
    for model in ("Huawei", "Huawei CE6870", "Huawei NE40E"):
        for k in range(8 if tier == "quick" else 60):
            old_ch = [["undo portswitch", []]] + [x for x in opt_old if rnd.random() < 0.6]
            new_ch = [x for x in opt_new if rnd.random() < 0.5]
            rnd.shuffle(old_ch)
            name = rnd.choice(["GE1/0/1", "100GE1/0/2", "Eth-Trunk5"])
            extra_old = [["interface 10GE1/0/9", [["undo portswitch", []], ["ip address 10.9.0.1 255.255.255.0", []]]]] if rnd.random() < 0.5 else []
            extra_new = [["interface 10GE1/0/9", []]] if extra_old else []
            yield dict(kind="shipped_pin", model=model, old=[["interface " + name, old_ch]] + extra_old, new=[["interface " + name, new_ch]] + extra_new)


# ---------------------------------------------------------------------------------------------------------------------
# order_config
_WORD = re.compile(r"^[A-Za-z0-9_-]+$")
_SUSPECT = (".", "\\s", "\\S", "\\W", "\\D", "[^", " ", "(?i)", "$", "~")


def _tok_match(tok, word):
    """True / False / None (cannot tell)"""
    if _WORD.match(tok):
        return tok == word
    if tok == "*":
        return True
    m = re.match(r"^\*/(.+)/$", tok)
    rx = m.group(1) if m else tok
    if any(s in rx for s in _SUSPECT):
        # cannot evaluate the fragment word-wise; but a fragment that begins with literal characters cannot match a word that
        # does not begin with them
        lit = re.match(r"^[A-Za-z0-9_-]+", rx)
        if lit and "|" not in rx and "(?i)" not in tok:
            prefix = lit.group(0)
            if len(rx) > len(prefix) and rx[len(prefix)] in "?*{":
                prefix = prefix[:-1]
            if prefix and not word.startswith(prefix):
                return False
        return None
    try:
        return re.fullmatch(rx, word) is not None
    except re.error:
        return None


def _top_level_bar(tok):
    depth = 0
    for ch in tok:
        if ch in "([":
            depth += 1
        elif ch in ")]":
            depth -= 1
        elif ch == "|" and depth == 0:
            return True
    return False


def can_match(tokens, row):
    """may a rule with these tokens match `row`?  True / False / None (cannot tell); conservative, word by word"""
    words = row.split()
    if any(_top_level_bar(t) for t in tokens):
        return None      # a `|` outside parentheses splits the whole rule, not the word
    for i, t in enumerate(tokens):
        if t == "~" and i == len(tokens) - 1:
            return len(words) > i
        if i >= len(words):
            return False
        r = _tok_match(t, words[i])
        if r is None:
            return None
        if r is False:
            return False
    return True


def mention(row, rules, neg):
    """does some applicable rule mention `row` (directly or through its negated form)?  True / False / None"""
    res = False
    for r in rules:
        forms = [r.tokens]
        forms.append(r.tokens[1:] if r.tokens[0] == neg and len(r.tokens) > 1 else [neg] + r.tokens)
        for f in forms:
            m = can_match(f, row)
            if m:
                return True
            if m is None:
                res = None
    return res


def possible_child_rules(row, rules, neg):
    out = []
    for r in rules:
        if _is_global(r):
            out.append(r)
        forms = [r.tokens, (r.tokens[1:] if r.tokens[0] == neg and len(r.tokens) > 1 else [neg] + r.tokens)]
        if any(can_match(f, row) is not False for f in forms):
            out.extend(r.children)
    return out


def check_order_config(cfg_nested, orderer, rules, neg, exact=False):
    """the three order_config laws on one config; -> (fails, n_unmentioned_rows_checked); exact: `rules` are in the small
    language of bounded.gen_rb, so plain (not negated) rows can also be ranked: earlier rule first"""
    t = g.to_tree(cfg_nested)
    before = g.to_nested(t)
    out = orderer.order_config(t)
    got = g.to_nested(out)
    fails = []
    if g.to_nested(t) != before:
        fails.append(("bounded:C08:order_config:input-modified", "order_config changed its argument", before, g.to_nested(t)))
    if sorted(g.paths(g.to_tree(got))) != sorted(g.paths(t)) or Counter(map(tuple, g.paths(out))) != Counter(map(tuple, g.paths(t))):
        fails.append(("bounded:C08:order_config:rows-lost-or-duplicated", "order_config does not only permute rows within their block",
                      sorted(map(list, g.paths(t))), sorted(map(list, g.paths(out)))))
        return fails, 0
    again = g.to_nested(orderer.order_config(out))
    if again != got:
        fails.append(("bounded:C08:order_config:not-idempotent", "ordering an ordered configuration changes it", got, again))
    cnt = [0]

    def walk(inp, outp, rules, path):
        un = [r for r, _ in inp if mention(r, rules, neg) is False]
        cnt[0] += len(un)
        got_un = [r for r, _ in outp if r in set(un)]
        plain_kept = [r for r in un if not r.startswith(neg + " ")] == [r for r in got_un if not r.startswith(neg + " ")]
        key = "bounded:C08:order_config:unmentioned-rows-reordered" if plain_kept else "bounded:C08:order_config:unmentioned-plain-rows-reordered"
        if un != got_un and not any(f[0] == key for f in fails):
            fails.append((key,
                          "rows of block %r that no ordering rule mentions changed their relative order" % (list(path),), un, got_un))
        od = dict((r, c) for r, c in outp)
        for r, c in inp:
            if c:
                walk(c, od[r], possible_child_rules(r, rules, neg), path + (r,))

    walk(before, got, rules, ())

    def walk_rank(outp, rules, path):
        ranked = [(ref_rank(r, rules, neg, False), r) for r, _ in outp if not r.startswith(neg + " ")]
        ranked = [x for x in ranked if x[0] is not None]
        if [x for x in ranked] != sorted(ranked, key=lambda x: x[0]) and not any(f[0].endswith("order_config:rank-violated") for f in fails):
            fails.append(("bounded:C08:order_config:rank-violated", "in block %r a row matched by a later rule precedes one matched by an "
                          "earlier rule" % (list(path),), [r for _, r in sorted(ranked, key=lambda x: x[0])], [r for _, r in ranked]))
        for r, c in outp:
            if c:
                walk_rank(c, child_rules(r, rules, neg, False), path + (r,))

    if exact:
        try:
            walk_rank(got, sorted(rules, key=lambda r: r.line), ())
        except ScopeError:
            pass
    return fails, cnt[0]


_order_text_cache = {}


def shipped_order_rules(vendor):
    if vendor not in _order_text_cache:
        import annet.rulebook
        import os
        p = os.path.join(os.path.dirname(annet.rulebook.__file__), "texts", vendor + ".order")
        text = open(p).read() if os.path.exists(p) else ""
        if any(ln.lstrip().startswith("%") for ln in text.split("\n")):
            text = ""   # templated order file: no certification possible
            _order_text_cache[vendor] = None
        else:
            _order_text_cache[vendor] = g.parse_rules(text)
    return _order_text_cache[vendor]


ALL_MODELS = [(v, d["models"][0], d["neg"]) for v, d in g.VENDORS.items()] + [(v, m, g.FLAT_NEG[v]) for v, m in g.FLAT_VENDORS.items()] \
    + [("huawei", "Huawei CE6870", "undo")]


def _neg_of_model(model):
    for v, m, n in ALL_MODELS:
        if m == model:
            return v, n
    hw = g.hw_of(model)
    v = hw.vendor
    return v, (g.VENDORS.get(v) or {"neg": g.FLAT_NEG.get(v)})["neg"]


def synth_cfg_for_vendor(rnd, rules, neg, depth=0):
    """config built from the literal rules of a shipped order file + unmentioned rows (plain and negated)"""
    rows = []
    lit = [r for r in rules if all(_WORD.match(t) for t in r.tokens)]
    rnd.shuffle(lit)
    for r in lit[:rnd.randint(0, 4)]:
        row = " ".join(r.tokens)
        if rnd.random() < 0.3:
            row += " x1"
        ch = synth_cfg_for_vendor(rnd, r.children, neg, depth + 1) if r.children and depth < 2 and rnd.random() < 0.7 else []
        rows.append([row, ch])
    for nonce in ("zzqx-1 v", neg + " zzqx-2", "zzqx-3", neg + " zzqx-4 v"):
        if rnd.random() < 0.5:
            rows.append([nonce, ([["zzqx-5", []], [neg + " zzqx-6", []], ["zzqx-7", []]] if depth < 1 and rnd.random() < 0.3 else [])])
    rnd.shuffle(rows)
    seen, out = set(), []
    for r in rows:
        if r[0] not in seen:
            seen.add(r[0])
            out.append(r)
    return out


def check_oc_case(case):
    from annet.patching import Orderer
    from annet.annlib.patching import Orderer as BaseOrderer
    from annet.annlib.rbparser.ordering import compile_ordering_text
    if case["rb"] == "shipped":
        vendor, neg = _neg_of_model(case["model"])
        hw = g.hw_of(case["model"])
        orderer = Orderer.from_hw(hw)
        rules = shipped_order_rules(vendor)
        if rules is None:
            rules = [g.Rule(0, ["~"], {}, "~")]
    else:
        vendor = case["vendor"]
        neg = g.VENDORS[vendor]["neg"]
        orderer = BaseOrderer(compile_ordering_text(case["order"], vendor), vendor)
        rules = g.parse_rules(case["order"])
    cfg = case["cfg"] if "cfg" in case else _corpus_sample(case["name"])[case["side"]]
    return check_order_config(cfg, orderer, rules, neg, exact=(case["rb"] != "shipped"))


def rand_cfg_unmentioned(rnd, neg):
    old, _ = g.rand_pair(rnd, 0.5)

    def add(rows, depth):
        for nonce in ("z 1", neg + " z 2", "z 3", neg + " a 1", neg + " c"):
            if rnd.random() < 0.4:
                rows.insert(rnd.randint(0, len(rows)), [nonce, []])
        for r, ch in rows:
            if r.startswith(("blk", "sub")):
                add(ch, depth + 1)
    add(old, 0)
    return old


# ---------------------------------------------------------------------------------------------------------------------
def _corpus_sample(name):
    for s in g.corpus():
        if s["name"] == name:
            return s
    raise KeyError(name)


def small_rank_cases(tier, seed):
    """systematic part: every order of the rules a, b, c (+ one pin of a or c at every position), flat and nested in a block,
    x pairs of configs over {a 1, a 2, b 1, c 1 | c 2}; quick = a seeded 1/12 sample of the pairs"""
    import itertools
    cfgs = []
    for a1, a2, b1 in itertools.product((0, 1), repeat=3):
        for c in (None, "c 1", "c 2"):
            cfgs.append([[r, []] for r, on in (("a 1", a1), ("a 2", a2), ("b 1", b1)) if on] + ([[c, []]] if c else []))
    pairs = [(o, n) for o in cfgs for n in cfgs if o != n]
    rnd = g.rng(seed, "c08small")
    for vendor in ("huawei", "cisco"):
        neg = g.VENDORS[vendor]["neg"]
        for perm in itertools.permutations(["a", "b", "c"]):
            books = [list(perm)]
            for fam in ("a", "c"):
                for k in range(4):
                    books.append(list(perm[:k]) + ["%s %s %%order_reverse" % (neg, fam)] + list(perm[k:]))
            # a pin written WITHOUT the negation word (`x %order_reverse`) at every position, alone and next to the rule `<neg> x`
            xbooks = []
            for k in range(4):
                xbooks.append(list(perm[:k]) + ["x %order_reverse"] + list(perm[k:]))
                xbooks.append(["%s x" % neg] + list(perm[:k]) + ["x %order_reverse"] + list(perm[k:]))
                xbooks.append(list(perm[:k]) + ["x %order_reverse"] + list(perm[k:]) + ["%s x" % neg])
            xbooks.append(list(perm[:2]) + ["%s x" % neg] + list(perm[2:]))
            for lines in books + xbooks:
                has_x = lines in xbooks
                for nested in (False, True):
                    if vendor == "cisco" and nested:
                        continue
                    order = ("blk\n" + "".join("    %s\n" % ln for ln in lines)) if nested else "".join(ln + "\n" for ln in lines)
                    sel = rnd.sample(pairs, len(pairs) // ((48 if tier == "quick" else 6) * (3 if has_x else 1)))
                    for (o, n) in sel:
                        if has_x:       # the negated config row goes away (removal command `x 1`), another one may come
                            o = o + [["%s x 1" % neg, []]]
                            n = n + ([["%s x 2" % neg, []]] if rnd.random() < 0.4 else [])
                        if nested:
                            o, n = [["blk 1", o]], [["blk 1", n]]
                        yield dict(kind="rank", vendor=vendor, rul=rnd.choice(["R1", "R2", "R2"]), order=order, old=o, new=n)


def cases(tier, seed):
    for vendor in ("cisco", "huawei", "juniper", "arista"):
        if vendor in g.VENDORS:
            for sc in PINNED:
                yield dict(kind="pinned", vendor=vendor, name=sc["name"])
    quick = tier == "quick"
    n_rb = 60 if quick else 2500
    n_pairs = 12 if quick else 25
    yield from small_rank_cases(tier, seed)
    for vendor in ("huawei", "cisco"):
        neg = g.VENDORS[vendor]["neg"]
        rnd = g.rng(seed, "c08rank", vendor)
        for k in range(n_rb if vendor == "huawei" else n_rb // 3):
            order = rand_order_text(rnd, neg)
            for _ in range(n_pairs):
                old, new = add_x(rnd, *g.rand_pair(rnd, 0.55), neg)
                yield dict(kind="rank", vendor=vendor, rul=("R1" if k % 2 else "R2"), order=order, old=old, new=new)
    rnd = g.rng(seed, "c08sort")
    for _ in range(300 if quick else 20000):
        yield dict(kind="sort", tree=rand_keyed_tree(rnd))
    for s in g.corpus():
        yield dict(kind="shipped", name=s["name"], max_del=(4 if quick else 12))
    yield from shipped_pin_cases(tier, seed)
    for s in g.corpus():
        for side in ("old", "new"):
            yield dict(kind="oc", rb="shipped", model=s["model"], name=s["name"], side=side)
    from bounded.gen_rb import hw_of  # noqa: F401
    for vendor, model, neg in ALL_MODELS:
        rules = shipped_order_rules(vendor) or []
        rnd = g.rng(seed, "c08oc", model)
        for _ in range(25 if quick else 1000):
            yield dict(kind="oc", rb="shipped", model=model, cfg=synth_cfg_for_vendor(rnd, rules, neg))
    for vendor in ("huawei", "arista"):
        neg = g.VENDORS[vendor]["neg"]
        rnd = g.rng(seed, "c08ocs", vendor)
        for _ in range(150 if quick else 8000):
            yield dict(kind="oc", rb="synthetic", vendor=vendor, order=rand_order_text(rnd, neg), cfg=rand_cfg_unmentioned(rnd, neg))


PINNED = [
    # rule words that merely BEGIN with the vendor's negation word (cisco `notify`, huawei `undotify`) are plain commands: they are ranked
    # by their own rule, and only `<neg> <word> ...` is their removal (mirrored order, in front)
    dict(name="near-negation-words", order="first *\nalpha *\n{neg}tify *\nzeta *\n",
         cfg=[["zeta 1", []], ["{neg} alpha 1", []], ["{neg}tify 1", []], ["{neg} zeta 1", []], ["alpha 1", []], ["{neg} {neg}tify 1", []]],
         expected=[["{neg} zeta 1", []], ["{neg} {neg}tify 1", []], ["{neg} alpha 1", []], ["alpha 1", []], ["{neg}tify 1", []], ["zeta 1", []]]),
    # the children of a block that is the ONLY child of its parent are ordered like any others
    dict(name="only-child-block", order="first *\np *\n    first *\n    q *\n        first *\n        r2 *\n        r1 *\n",
         cfg=[["p 1", [["q 1", [["r1 a", []], ["r2 b", []]]]]]],
         expected=[["p 1", [["q 1", [["r2 b", []], ["r1 a", []]]]]]]),
    dict(name="only-child-block-beside-a-leaf", order="first *\np *\n    first *\n    q *\n        first *\n        r2 *\n        r1 *\n",
         cfg=[["p 1", [["q 1", [["r1 a", []], ["r2 b", []], ["{neg} r1 c", []]]]]], ["zz", []]],
         expected=[["zz", []], ["p 1", [["q 1", [["{neg} r1 c", []], ["r2 b", []], ["r1 a", []]]]]]]),     # (zz: no rule, rank 0)
]


def _subst(x, neg):
    if isinstance(x, str):
        return x.replace("{neg}", neg)
    return [_subst(y, neg) for y in x]


def check_pinned_case(case):
    """order_config on a small configuration whose ordered form follows from the statement alone (removals in mirrored rule order first,
    then commands in rule order, children inside their parent, recursively)"""
    from annet.annlib.patching import Orderer
    from annet.annlib.rbparser.ordering import compile_ordering_text
    sc = next(x for x in PINNED if x["name"] == case["name"])
    neg = g.VENDORS[case["vendor"]]["neg"]
    rb = compile_ordering_text(_subst(sc["order"], neg), case["vendor"])
    got = g.to_nested(Orderer(rb, case["vendor"]).order_config(g.to_tree(_subst(sc["cfg"], neg))))
    exp = _subst(sc["expected"], neg)
    if got != exp:
        return [("bounded:C08:order_config:pinned-order:" + sc["name"], "order_config does not give the order the statement prescribes "
                 "(removals in mirrored rule order first, then commands in rule order, at every depth)", exp, got)]
    return []


def run_case(case):
    """-> (fails [(key, text, expected, actual)], evaluations, nontrivial)"""
    if case["kind"] == "pinned":
        return check_pinned_case(case), 1, True
    if case["kind"] == "rank":
        f, nt = check_rank_case(case)
        return f, 1, nt
    if case["kind"] == "sort":
        return check_sort_case(case), 1, any(ch for _, _, ch in case["tree"])
    if case["kind"] == "shipped":
        return check_shipped_case(case)
    if case["kind"] == "shipped_pin":
        f, n = check_shipped_pin_case(case)
        return f, 1, n >= 2
    if case["kind"] == "oc":
        f, n = check_oc_case(case)
        return f, 1, n >= 2
    raise ValueError(case["kind"])


def run(tier="quick", seed=0, part=0, nparts=1):
    ev = 0
    nontrivial = set()
    failures = []
    per_key = {}
    samples = []
    i = -1
    for i, case in enumerate(cases(tier, seed)):
        if i % nparts != part:
            continue
        fails, n, nt = run_case(case)
        ev += n
        if nt:
            nontrivial.add(h(case))
        if part == 0 and len(samples) < 2 and nt and case["kind"] == "rank":
            samples.append(case)
        for (key, text, exp, act) in fails:
            if per_key.get(key, 0) < 3:
                per_key[key] = per_key.get(key, 0) + 1
                failures.append(_j(dict(key=key, text=text, case=case, expected=exp, actual=act)))
    return dict(evaluations=ev, nontrivial=sorted(nontrivial), failures=failures, samples=samples,
                rule="rank: seeded random ordering rulebooks (families a,b,c,d,blk/sub nested to depth 3, a family x of negated config rows, "
                     "split rules, %order_reverse pins written with and without the negation word, %global; sibling languages disjoint by construction and re-checked) x (old,new) over a 20-row alphabet x 2 "
                     "patching rulebooks on huawei (undo) and cisco (no); sort: random keyed PatchTrees; shipped: every corpus sample x "
                     "deletion of each unchanged top-level row / insertion of a foreign row at front, middle, end; oc: order_config "
                     "laws on 14 hardware models (all vendors) with corpus configs, configs built from the literal rules of the "
                     "vendor's order file + unmentioned rows (plain / negated), and synthetic rulebooks; non-trivial = patch block "
                     ">= 2 ranked commands incl. a removal / patch with >= 2 commands / config with >= 2 unmentioned rows; distinct by case hash",
                bound="ordering rulebooks depth <= 3, <= 12 rules per level; configs depth <= 3; %d cases" % (i + 1))


def _j(x):
    if isinstance(x, dict):
        return {str(k): _j(v) for k, v in x.items()}
    if isinstance(x, (list, tuple)):
        return [_j(v) for v in x]
    return x


def replay(case):
    fails, _, _ = run_case(case)
    if not fails:
        return dict(ok=True, expected=None, actual=None)
    return dict(ok=False, key=fails[0][0], expected=_j(fails[0][2]), actual=_j(fails[0][3]))
