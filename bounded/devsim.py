"""An executable DEVICE SIMULATOR for the properties C01 / C02 (bounded layer).

Written from the property statements and the rule-language description at the head of the shipped *.rul files
(`*` = one argument, trailing `~` = one or more arguments, `%global` = the rule acts at every level below), NOT from
annet's diff / patch code.  annet is not imported here at all.

Model
-----
* The device configuration is a tree  row -> subtree  (insertion ordered).
* The rule that governs a row inside a block is the FIRST rule, in text order, whose words match the row: the rules written
  below the rule that governs the block row (local rules) are tried first, then the `%global` rules inherited from the
  enclosing levels (nearest first).  The key of the row are the words standing at the `*` positions and the rest of the
  line standing at a trailing `~`.  Rule and key are decided with an own word matcher (tokens_match below; `*/regex/` = one word matching the regex).
* Per block the device holds at most one row per slot (rule, key).
* direct command: a command whose row matches rule r with key k stores the row in slot (r, k) of the block addressed by
  the command's path; entering a block (every ancestor row of a command path) is itself a direct command, it creates the
  block when it does not exist.  Storing into an empty slot appends the row at the end of the block (so a removed and
  re-created row moves to the end: observable for `%ordered` rules); storing into an occupied slot replaces the row text in
  place and keeps what is below it (only the negation command empties a slot).
* negation command: `<neg word> <rule words with the key substituted>` empties slot (r, k) with everything below it.  A
  command is read as a negation command when it has that form for some rule of the block (first rule in text order),
  otherwise as a direct command.
* the vendor's block-exit word changes nothing.
* `%rewrite`: the rows of a block that are governed by `%rewrite` rules are replaced AS A WHOLE by the rewrite rows the patch
  sends into that block: the first direct command of a patch that stores a rewrite-governed row in a block first drops every
  rewrite-governed row of that block (with its subtree).  A patch that sends no rewrite row into a block leaves them alone.
* flat vendors: juniper commands are `set <words of the path>` / `delete <words of the block path> <rule words with key>`,
  routeros commands are `/<words of the block path>` (selects the menu), `remove [ find <...> ]` (negation in the current
  menu) or a direct command in the current menu.  Splitting the words back into a path needs the device's knowledge of its
  own hierarchy: the `schema` argument (trees whose paths are the known hierarchy) for `set` / menu commands; a juniper
  `delete` is resolved against the blocks the device holds (a reading = existing block + negation command whose slot is
  occupied; no reading = nothing to delete).  Two readings raise Ambiguous, a set/menu without reading Undecodable.
"""
from collections import OrderedDict as odict

import re

from bounded.gen_rb import parse_rules

NEG = {"huawei": "undo", "h3c": "undo", "cisco": "no", "arista": "no", "nexus": "no", "iosxr": "no", "aruba": "no",
       "b4com": "no", "juniper": "delete", "nokia": "delete", "ribbon": "delete", "routeros": "remove"}
# words that leave a block (vendor CLI knowledge)
EXIT = {"huawei": ("quit",), "h3c": ("quit",), "cisco": ("exit", "exit-address-family"), "arista": ("exit",),
        "nexus": ("exit",), "iosxr": ("exit",), "aruba": ("exit",), "b4com": ("exit",), "juniper": (), "nokia": (), "ribbon": (),
        "routeros": ()}
FLAT = ("juniper", "routeros")


class Undecodable(Exception):
    pass


class Ambiguous(Undecodable):
    """a flat command has two readings in the known hierarchy (the case is outside the unambiguous scope)"""


# ---------------------------------------------------------------------------------------------------------------------
# rules
class Ctx:
    """the rules visible inside one block"""
    __slots__ = ("local", "glob")

    def __init__(self, local, glob):
        self.local = local
        self.glob = glob

    def all(self):
        return list(self.local) + list(self.glob)


def is_global(rule):
    return rule.params.get("global", "0") not in ("0", "false", "no")


def flag(rule, name):
    return rule is not None and rule.params.get(name, "0") not in ("0", "false", "no")


def logic_of(rule):
    """short name of the patch logic of a rule"""
    if rule is None:
        return "unknown"
    if flag(rule, "ordered"):
        return "ordered"
    if flag(rule, "rewrite"):
        return "rewrite"
    lg = rule.params.get("logic", "common.default")
    return lg.split(".")[-1]


_rules_cache = {}


def root_ctx(rulebook_text):
    r = _rules_cache.get(rulebook_text)
    if r is None:
        if len(_rules_cache) > 5000:
            _rules_cache.clear()
        top = parse_rules(rulebook_text)
        r = _rules_cache[rulebook_text] = Ctx([x for x in top if not is_global(x)], [x for x in top if is_global(x)])
    return r


def tokens_match(tokens, row):
    """own word matcher: a rule matches a row that starts with the rule's words; `*` is any one word, `*/regex/` one word the
    regex matches completely, a trailing `~` the non-empty rest of the line"""
    words = row.split()
    for i, t in enumerate(tokens):
        if t == "~" and i == len(tokens) - 1:
            return len(words) > i
        if i >= len(words):
            return False
        if t == "*":
            continue
        if len(t) > 3 and t.startswith("*/") and t.endswith("/"):
            if re.fullmatch(t[2:-1], words[i]) is None:
                return False
            continue
        if t != words[i]:
            return False
    return True


def _is_wild(t):
    return t == "*" or (len(t) > 3 and t.startswith("*/") and t.endswith("/"))


def child_ctx(ctx, rule, row=None):
    """the rules visible below a block row.  A block row that several rules of its level match (a specific rule written
    before a generic one) gets the children of all of them, those of the earlier rule first; the row is governed -- and its
    own slot decided -- by the first one.  Children are taken from local rules only when the governing rule is local."""
    if rule is None:
        return Ctx([], ctx.glob)
    rules = [rule]
    if row is not None and not is_global(rule):
        rules = [r for r in ctx.local if tokens_match(r.tokens, row)]
    loc, glo = [], []
    for r in rules:
        loc += [x for x in r.children if not is_global(x) and x not in loc]
        glo += [x for x in r.children if is_global(x) and x not in glo]
    return Ctx(loc, glo + list(ctx.glob))


def key_of(tokens, words):
    key = []
    for i, t in enumerate(tokens):
        if t == "~" and i == len(tokens) - 1:
            key.append(" ".join(words[i:]))
        elif _is_wild(t):
            key.append(words[i])
    return tuple(key)


def classify(ctx, row):
    """-> (rule, key) of the first rule in text order that matches the row, (None, None) for a row no rule knows"""
    words = row.split()
    for r in ctx.all():
        if tokens_match(r.tokens, row):
            return r, key_of(r.tokens, words)
    return None, None


def classify_negation(ctx, cmd, neg):
    """-> (rule, key) when cmd == neg + rule words with a key substituted (first rule in text order), else (None, None)"""
    words = cmd.split()
    if len(words) < 2 or words[0] != neg:
        return None, None
    rest = words[1:]
    for r in ctx.all():
        t = r.tokens
        if t and t[-1] == "~":
            if len(rest) < len(t):
                continue
        elif len(rest) != len(t):
            continue
        if tokens_match(t, " ".join(rest)):
            return r, key_of(t, rest)
    return None, None


# ---------------------------------------------------------------------------------------------------------------------
# the device state
def copy_tree(t):
    return odict((k, copy_tree(v)) for k, v in t.items())


def find_slot(node, ctx, rule, key):
    for row in node:
        r, k = classify(ctx, row)
        if r is rule and k == key:
            return row
    return None


class Device:
    def __init__(self, tree, rulebook_text, vendor):
        self.tree = copy_tree(tree)
        self.ctx0 = root_ctx(rulebook_text)
        self.vendor = vendor
        self.neg = NEG[vendor]
        self.exit = EXIT[vendor]
        self.wiped = set()      # block paths whose rewrite rows were already replaced by this patch
        self.log = []

    # -- elementary operations inside one block
    def store(self, node, ctx, row, block_path):
        rule, key = classify(ctx, row)
        if rule is None:
            node.setdefault(row, odict())
            return rule
        if flag(rule, "rewrite") and block_path not in self.wiped:
            self.wiped.add(block_path)
            for other in list(node):
                r2, _ = classify(ctx, other)
                if flag(r2, "rewrite"):
                    del node[other]
        cur = find_slot(node, ctx, rule, key)
        if cur is None:
            node[row] = odict()
        elif cur != row:
            items = [((row if k == cur else k), v) for k, v in node.items()]
            node.clear()
            for k, v in items:
                node[k] = v
        return rule

    def empty(self, node, ctx, rule, key):
        cur = find_slot(node, ctx, rule, key)
        if cur is not None:
            del node[cur]

    # -- one command
    def enter(self, blocks):
        node, ctx = self.tree, self.ctx0
        path = ()
        for b in blocks:
            rule = self.store(node, ctx, b, path)
            node = node[b]
            ctx = child_ctx(ctx, rule, b)
            path = path + (b,)
        return node, ctx, path

    def command(self, blocks, cmd):
        if blocks and cmd in self.exit:
            return
        node, ctx, path = self.enter(blocks)
        rule, key = classify_negation(ctx, cmd, self.neg)
        if rule is not None:
            self.empty(node, ctx, rule, key)
        else:
            self.store(node, ctx, cmd, path)

    def ctx_at(self, blocks):
        ctx = self.ctx0
        for b in blocks:
            rule, _ = classify(ctx, b)
            ctx = child_ctx(ctx, rule, b)
        return ctx


def ctx_at(rulebook_text, blocks):
    """the rules visible inside the block addressed by the rows `blocks`"""
    ctx = root_ctx(rulebook_text)
    for b in blocks:
        rule, _ = classify(ctx, b)
        ctx = child_ctx(ctx, rule, b)
    return ctx


# ---------------------------------------------------------------------------------------------------------------------
# flat vendors
def _schema_paths(trees):
    out = set()

    def walk(t, p):
        for k, v in t.items():
            out.add(p + (k,))
            walk(v, p + (k,))
    for t in trees:
        walk(t, ())
    return out


def _join(p):
    return " ".join(p)


def _decode_set(text, known):
    c = [p for p in known if _join(p) == text]
    if not c:
        raise Undecodable("set %r: no reading" % text)
    if len(c) > 1:
        raise Ambiguous("set %r: %d readings" % (text, len(c)))
    return c[0][:-1], c[0][-1]


def _existing_blocks(tree, prefix=()):
    out = [prefix]
    for k, v in tree.items():
        out.extend(_existing_blocks(v, prefix + (k,)))
    return out


def _decode_neg(dev, text):
    """text = words of a block path followed by the tail of a negation command.  The device resolves it against its own
    hierarchy: readings are (existing block, negation command) whose slot is occupied; none -> nothing to delete"""
    readings = []
    for bp in _existing_blocks(dev.tree):
        pre = _join(bp)
        if bp and not text.startswith(pre + " "):
            continue
        tail = text[len(pre):].strip() if bp else text
        if not tail:
            continue
        ctx = dev.ctx_at(bp)
        cmd = "%s %s" % (dev.neg, tail)
        rule, key = classify_negation(ctx, cmd, dev.neg)
        if rule is not None and find_slot(_node(dev.tree, bp), ctx, rule, key) is not None:
            readings.append((bp, cmd))
    if len(readings) > 1:
        raise Ambiguous("delete %r: %d readings" % (text, len(readings)))
    return readings[0] if readings else None


def _node(tree, path):
    for k in path:
        tree = tree[k]
    return tree


def _apply_flat(dev, cmds, known):
    if dev.vendor == "juniper":
        for c in cmds:
            if c.startswith("set "):
                blocks, cmd = _decode_set(c[4:], known)
            elif c.startswith("delete "):
                r = _decode_neg(dev, c[7:])
                if r is None:
                    continue
                blocks, cmd = r
            else:
                raise Undecodable(c)
            dev.command(blocks, cmd)
        return
    menu = ()
    blockset = {()} | {p[:i] for p in known for i in range(1, len(p) + 1)}
    for c in cmds:
        if c.startswith("/"):
            cand = [bp for bp in blockset if _join(bp) == c[1:]]
            if len(cand) > 1:
                raise Ambiguous("menu %r: %d readings" % (c, len(cand)))
            if not cand:
                raise Undecodable("menu %r: no reading" % c)
            menu = cand[0]
            dev.enter(menu)
        elif c.startswith("remove [ find ") and c.endswith(" ]"):
            what = c[len("remove [ find "):-2]
            node, ctx, _ = dev.enter(menu)
            done = False
            for form in ("", "add "):
                cmd = "remove %s%s" % (form, what)
                rule, key = classify_negation(ctx, cmd, dev.neg)
                if rule is not None and find_slot(node, ctx, rule, key) is not None:
                    dev.empty(node, ctx, rule, key)
                    done = True
                    break
            if not done:
                pass    # nothing found: RouterOS `remove [ find ... ]` with an empty result removes nothing
        else:
            dev.command(menu, c)


# ---------------------------------------------------------------------------------------------------------------------
def dev_apply(dev_tree, cmd_paths, rulebook_text, vendor, schema=None, structured=False):
    """execute the command paths (tuples of rows: enclosing block rows..., command) in the given order -> new device tree.
    `schema` (flat vendors only): trees whose paths are the hierarchy the device knows (the device tree is always included).
    structured=True: the paths of a flat vendor are given as block paths (rows of the patch tree), nothing is split back"""
    dev = Device(dev_tree, rulebook_text, vendor)
    paths = [tuple(str(x) for x in p) for p in cmd_paths]
    if vendor in FLAT and not structured:
        known = _schema_paths([dev_tree] + list(schema or []))
        _apply_flat(dev, [p[-1] for p in paths], known)
    else:
        for p in paths:
            dev.command(p[:-1], p[-1])
    return dev.tree


def cli_walk(cmd_paths, vendor):
    """block vendors with an exit word: the CLI is stateful.  Replays where the CLI stands: a command is typed in the block
    the previous commands left it in -- the same block, the block the previous command has just opened, or (after the exit
    word) the enclosing block.  -> None when every command path agrees with that position, else (index, path, position)"""
    ex = EXIT[vendor]
    if not ex:
        return None
    cur, prev = (), None
    for i, p in enumerate(cmd_paths):
        p = tuple(str(x) for x in p)
        blocks, cmd = p[:-1], p[-1]
        if blocks != cur:
            if prev is not None and blocks == prev and prev[:-1] == cur and not (prev[:-1] and prev[-1] in ex):
                cur = prev
            else:
                return (i, p, cur)
        if blocks and cmd in ex:
            cur = cur[:-1]
        prev = p
    return None


# ---------------------------------------------------------------------------------------------------------------------
# views used by the checks
def known_part(tree, rulebook_text, ctx=None):
    """the sub-tree of rows the rulebook knows (a row no rule matches is dropped with what is below it)"""
    ctx = ctx or root_ctx(rulebook_text)
    out = odict()
    for row, ch in tree.items():
        rule, _ = classify(ctx, row)
        if rule is None:
            continue
        out[row] = known_part(ch, rulebook_text, child_ctx(ctx, rule, row))
    return out


def plain(t):
    return {k: plain(v) for k, v in t.items()}


def ordered_view(tree, rulebook_text, ctx=None, path=()):
    """{block path: [rows governed by %ordered rules, in device order]} for blocks that have such rows"""
    ctx = ctx or root_ctx(rulebook_text)
    out = {}
    seq = []
    for row, ch in tree.items():
        rule, _ = classify(ctx, row)
        if rule is None:
            continue
        if flag(rule, "ordered"):
            seq.append((rule.line, row))
        out.update(ordered_view(ch, rulebook_text, child_ctx(ctx, rule, row), path + (row,)))
    if seq:
        out[path] = seq
    return out


def slots_ok(tree, rulebook_text, ctx=None):
    """at most one row per (rule, key) in every block"""
    ctx = ctx or root_ctx(rulebook_text)
    seen = set()
    for row, ch in tree.items():
        rule, key = classify(ctx, row)
        if rule is None:
            continue
        if (rule.line, key) in seen:
            return False
        seen.add((rule.line, key))
        if not slots_ok(ch, rulebook_text, child_ctx(ctx, rule, row)):
            return False
    return True


def governing(tree_path, rulebook_text):
    """[(rule, key)] for every row of a path"""
    ctx = root_ctx(rulebook_text)
    out = []
    for row in tree_path:
        rule, key = classify(ctx, row)
        out.append((rule, key))
        ctx = child_ctx(ctx, rule, row)
    return out
