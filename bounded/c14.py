"""C14 bounded layer: the shipped routing-policy generators emit ACL-covered, self-consistent config.

A case is a RouteMap program given as DATA (policies -> statements -> R.* conditions and rule.* actions), an entity set
(prefix lists, community lists, as-path filters, rd filters) and a vendor.  The program is built through the real DSL
(`RouteMap`, `R`, the statement builder) and handed to subclasses of the REAL shipped generators:

  huawei / arista:  RoutingPolicyGenerator, PrefixListFilterGenerator, CommunityListGenerator, AsPathFilterGenerator,
                    RDFilterFilterGenerator -- run directly (to see what is yielded in which block) and through the real
                    `annet.generators._run_partial_generator(gen, GeneratorPartialRunArgs(device, use_acl=True))`
  cumulus:          CumulusPolicyGenerator.generate_cumulus_rpl(device)

Oracles (written from the property statement / the vendor syntax, not from the generators):
  * ACL: a reference reading of the ACL language of docs/usage/acl.rst (words, `*`, `~`, nesting, `%global`) applied to the
    generator's own acl text must cover every yielded row; the real run must not raise AclError nor drop rows.
  * nesting: the text parsed back with the vendor formatter == the block structure the rows were yielded in (recorded at
    `_append_text` time from the block depth; cumulus: rows between a `route-map` row and the next `!`).
  * names: every list name a policy row refers to (vendor syntax tables REFS) is defined by a row of the matching list
    generator (DEFS) fed the same inputs -- checked when no generator rejected the input.
  * rejection: every single condition / action of the program, run alone in a statement, either yields rows and no error,
    or raises an exception (of any class) having yielded no row for it; the stream of the whole program is the concatenation of
    these per-construct streams (cut, without any extra row, at the first rejected construct).
"""
import itertools
import json
import logging
import random
import re
import textwrap

from bounded.common import setup_annet, h as _hash

setup_annet()

from unittest.mock import Mock  # noqa: E402

from annet import generators as anngens  # noqa: E402
from annet.annlib import tabparser  # noqa: E402
from annet.annlib.netdev.views import hardware  # noqa: E402
from annet.annlib.patching import AclError  # noqa: E402
from annet.generators.exceptions import GeneratorError  # noqa: E402
from annet.rpl import R, RouteMap, RoutingPolicy, RoutingPolicyStatement, AndCondition, Action, ResultType  # noqa: E402
from annet.rpl_generators import (  # noqa: E402
    AsPathFilter, AsPathFilterGenerator, CommunityList, CommunityListGenerator, CommunityLogic, CommunityType,
    CumulusPolicyGenerator, IpPrefixList, IpPrefixListMember, PrefixListFilterGenerator, RDFilter, RDFilterFilterGenerator,
    RoutingPolicyGenerator, ip_prefix_list,
)
from annet.types import GeneratorPartialRunArgs  # noqa: E402
from annet.vendors import registry_connector  # noqa: E402

K = "bounded:C14:"


class Dev:
    def __init__(self, model, sw, breed):
        self.hw = hardware.HardwareView(model, sw)
        self.breed = breed
        self.hostname = "mock-dev1"
        self.fqdn = "mock-dev1.example"
        self.id = 1


_devs = {}


def device(vendor):
    if vendor not in _devs:
        _devs[vendor] = {
            "huawei": lambda: Dev("Huawei CE6870-48S6CQ-EI", "VRP V200R001C00SPC700 + V200R001SPH002", "vrp85"),
            "arista": lambda: Dev("Arista DCS-7368", "EOS 4.29.9.1M", "arista"),
            "cumulus": lambda: Dev("Mellanox SN3700-VS2RO", "Cumulus Linux 5.4.0", "pc"),
        }[vendor]()
    return _devs[vendor]


# ---------------------------------------------------------------------------------------------------------------------
# entity sets
# ---------------------------------------------------------------------------------------------------------------------

def entities(variant):
    """variant 0: the base set; 1: AND/OR logic of every community list flipped; 2: regex lists get a second regex"""
    def logic(x):
        if variant == 1:
            return CommunityLogic.AND if x is CommunityLogic.OR else CommunityLogic.OR
        return x
    OR, AND = CommunityLogic.OR, CommunityLogic.AND
    B, RT, SOO, LG = CommunityType.BASIC, CommunityType.RT, CommunityType.SOO, CommunityType.LARGE
    rx2 = variant == 2
    cl = [
        ("CB1", ["65000:1"], B, OR, False), ("CB2", ["65000:2", "65000:3"], B, OR, False), ("CBA", ["65000:4", "65000:5"], B, AND, False),
        ("CBR", ["^65000:1..$"] + (["^65001:.*$"] if rx2 else []), B, OR, True), ("CBG", ["65535:0", "65000:9"], B, OR, False),
        ("RT1", ["100:1"], RT, OR, False), ("RT2", ["100:2", "100:3"], RT, AND, False),
        ("RTR", ["^100:.*$"] + (["^101:.*$"] if rx2 else []), RT, OR, True),
        ("SOO1", ["200:1"], SOO, OR, False), ("SOO2", ["200:2", "200:3"], SOO, OR, False),
        ("LG1", ["65000:1:1"], LG, OR, False), ("LG2", ["65000:2:1", "65000:2:2"], LG, AND, False),
        ("LGR", ["^65000:3:.*$"], LG, OR, True), ("LG3", ["65000:3:1"], LG, OR, False), ("RT3", ["100:4"], RT, OR, False),
    ]
    return dict(
        communities=[CommunityList(n, m, type=t, logic=logic(lg), use_regex=rx) for n, m, t, lg, rx in cl],
        prefix_lists=[
            ip_prefix_list("PL4A", ["10.0.0.0/8", "192.168.0.0/16"]),
            ip_prefix_list("PL4B", ["172.16.0.0/12"], or_longer=(24, 32)),
            IpPrefixList("PL4C", [IpPrefixListMember("10.1.0.0/16", or_longer=(None, 24)), IpPrefixListMember("10.2.0.0/16")]),
            ip_prefix_list("PL6A", ["2001:db8::/32"]),
            ip_prefix_list("PL6B", ["2001:db8:1::/48", "fd00::/8"], or_longer=(48, 64)),
        ],
        as_path_filters=[AsPathFilter("ASP1", ["123", ".*", "456"]), AsPathFilter("ASP2", ["65001"])],
        rd_filters=[RDFilter("RD1", 10, ["100:1", "100:2"]), RDFilter("RD2", 20, ["10.0.0.1:5"])],
    )


_ents = {}


def ents(variant):
    if variant not in _ents:
        _ents[variant] = entities(variant)
    return _ents[variant]


# ---------------------------------------------------------------------------------------------------------------------
# programs as data -> the real DSL
# ---------------------------------------------------------------------------------------------------------------------

def cond_atoms():
    res = []
    for fld, names in (("community", ["CB1", "CB2", "CBA"]), ("large_community", ["LG1", "LG2", "LG3"]),
                       ("extcommunity_rt", ["RT1", "RT2", "RT3"]), ("extcommunity_soo", ["SOO1", "SOO2"]), ("rd", ["RD1", "RD2"])):
        for op in ("has", "has_any"):
            for k in range(1, len(names) + 1):
                res.append([fld, op, names[:k]])
        res.append([fld, "has", names[1:2]])
        res.append([fld, "has_any", list(reversed(names[:2]))])
    res += [["community", "has", ["CBR"]], ["community", "has_any", ["CBR"]], ["large_community", "has", ["LGR"]],
            ["extcommunity_rt", "has_any", ["RTR"]]]
    res += [["interface", "eq", "eth0"], ["protocol", "eq", "bgp"], ["net_len", "eq", 24], ["local_pref", "lt", 100],
            ["metric", "eq", 10], ["family", "eq", 4]]
    res += [["as_path_length", "eq", 3], ["as_path_length", "ge", 1], ["as_path_length", "le", 10],
            ["as_path_length", "ge&le", [1, 10]], ["as_path_length", "between_included", [2, 5]]]
    res += [["as_path_filter", "ASP1"], ["as_path_filter", "ASP2"]]
    for fn, names in (("match_v4", ["PL4A", "PL4B", "PL4C"]), ("match_v6", ["PL6A", "PL6B"])):
        res.append([fn, names[:1], None])
        res.append([fn, names[:2], None])
        res.append([fn, names[1:], None])
        for ol in ([24, 32], [None, 24], [24, None]) if fn == "match_v4" else ([48, 64], [None, 128]):
            res.append([fn, names[:1], ol])
        res.append([fn, names, [28, 30] if fn == "match_v4" else [56, 64]])
    return res


def act_atoms():
    res = [["set_local_pref", 100], ["set_metric_type", "type-1"], ["set_metric", 10], ["add_metric", 5],
           ["set_rpki_valid_state", "valid"], ["set_resolution", "x"], ["set_mpls_label"], ["set_origin", "igp"], ["set_tag", 7]]
    for fld, a, b in (("community", "CB1", "CB2"), ("large_community", "LG1", "LG2"), ("extcommunity_rt", "RT1", "RT2"),
                      ("extcommunity_soo", "SOO1", "SOO2")):
        res += [[fld, {"set": [a]}], [fld, {"set": [a, b]}], [fld, {"set": []}], [fld, {"add": [a]}], [fld, {"add": [a, b]}],
                [fld, {"remove": [a]}], [fld, {"remove": [a, b]}], [fld, {"add": [a], "remove": [b]}],
                [fld, {"set": [a], "add": [b]}], [fld, {"set": [a], "remove": [b]}],
                [fld, {"set": [], "add": [a]}], [fld, {"set": [], "remove": [b]}], [fld, {"set": [], "add": [a], "remove": [b]}]]
    res += [["community", {"remove": ["CBG"]}], ["community", {"add": ["CBA", "CBG"]}]]
    res += [["extcommunity", {"set": ["RT1"]}], ["extcommunity", {"set": ["RT1", "SOO1"]}], ["extcommunity", {"set": ["SOO1", "RT1"]}],
            ["extcommunity", {"set": ["SOO2"]}], ["extcommunity", {"set": []}], ["extcommunity", {"add": ["RT1"]}],
            ["extcommunity", {"add": ["RT2", "SOO2"]}], ["extcommunity", {"remove": ["RT1"]}], ["extcommunity", {"remove": ["SOO1"]}],
            ["extcommunity", {"add": ["RT1"], "remove": ["SOO1"]}], ["extcommunity", {"set": ["RT1"], "add": ["RT2"]}],
            ["extcommunity", {"set": ["RT1"], "remove": ["RT2"]}], ["extcommunity", {"set": [], "add": ["RT1"]}],
            ["extcommunity", {"set": [], "remove": ["RT1"]}], ["extcommunity", {"set": [], "add": ["SOO1"], "remove": ["RT1"]}]]
    res += [["as_path", {"set": [65000, 65001]}], ["as_path", {"set": []}], ["as_path", {"prepend": [65000]}],
            ["as_path", {"prepend": [65000, "65000"]}], ["as_path", {"delete": [65001]}], ["as_path", {"expand": [65000]}],
            ["as_path", {"expand_last_as": 3}], ["as_path", {"prepend": [65000], "delete": [65001, 65002]}],
            ["as_path", {"prepend": [65000], "expand": [65001]}], ["as_path", {"prepend": [65000], "expand_last_as": 2}],
            ["as_path", {"delete": [65001], "expand": [65000]}], ["as_path", {"set": [65000], "prepend": [65001]}]]
    res += [["next_hop", "self"], ["next_hop", "peer"], ["next_hop", "discard"], ["next_hop", ["ipv4_addr", "10.0.0.1"]],
            ["next_hop", ["ipv6_addr", "2001:db8::1"]], ["next_hop", ["mapped_ipv4", "10.0.0.1"]]]
    return res


def cond_field(c):
    return {"match_v4": "ip_prefix", "match_v6": "ipv6_prefix"}.get(c[0], c[0])


def act_field(a):
    return {"set_metric": "metric", "add_metric": "metric"}.get(a[0], a[0])


def mk_conds(c):
    fld = c[0]
    if fld in ("community", "large_community", "extcommunity_rt", "extcommunity_soo", "rd"):
        return [getattr(getattr(R, fld), c[1])(*c[2])]
    if fld == "as_path_filter":
        return [R.as_path_filter(c[1])]
    if fld in ("match_v4", "match_v6"):
        kw = {"or_longer": tuple(c[2])} if c[2] else {}
        return [getattr(R, fld)(*c[1], **kw)]
    f = getattr(R, fld)
    if c[1] == "ge&le":
        return [f >= c[2][0], f <= c[2][1]]
    if c[1] == "between_included":
        return [f.between_included(tuple(c[2]))]
    return [{"eq": lambda: f == c[2], "lt": lambda: f < c[2], "ge": lambda: f >= c[2], "le": lambda: f <= c[2]}[c[1]]()]


def apply_act(rule, a):
    name = a[0]
    if name.startswith(("set_", "add_")):
        getattr(rule, name)(*a[1:])
    elif name == "next_hop":
        if isinstance(a[1], str):
            getattr(rule.next_hop, a[1])()
        else:
            getattr(rule.next_hop, a[1][0])(a[1][1])
    elif name == "as_path":
        b = rule.as_path
        for op in ("set", "prepend", "delete", "expand"):     # set first: it resets the rest
            if op in a[1]:
                getattr(b, op)(*a[1][op])
        if "expand_last_as" in a[1]:
            b.expand_last_as(a[1]["expand_last_as"])
    else:
        import warnings
        with warnings.catch_warnings():
            warnings.simplefilter("ignore", DeprecationWarning)
            b = getattr(rule, name)
        for op in ("set", "add", "remove"):
            if op in a[1]:
                getattr(b, op)(*a[1][op])


def build_policies(case):
    rm = RouteMap()
    for pol in case["policies"]:
        def handler(dev, route, pol=pol):
            for st in pol["stmts"]:
                conds = [x for c in st["conds"] for x in mk_conds(c)]
                with route(*conds, number=st["number"], name="n%s" % st["number"]) as rule:
                    for a in st["acts"]:
                        apply_act(rule, a)
                    getattr(rule, st["result"])()
        rm(handler, name=pol["name"])
    return rm.apply(device(case["vendor"]))


# ---------------------------------------------------------------------------------------------------------------------
# the generators under test, with a recorder of what is yielded at which block depth
# ---------------------------------------------------------------------------------------------------------------------

class Rec:
    def _append_text(self, text):
        if not hasattr(self, "events"):
            self.events = []
        self.events.append((len(self._indents), text))
        super()._append_text(text)


def make_generators(policies, es):
    class Common:
        def get_policies(self, dev):
            return policies

        def get_prefix_lists(self, dev):
            return es["prefix_lists"]

        def get_community_lists(self, dev):
            return es["communities"]

        def get_rd_filters(self, dev):
            return es["rd_filters"]

        def get_as_path_filters(self, dev):
            return es["as_path_filters"]

    class Policy(Rec, Common, RoutingPolicyGenerator):
        pass

    class Prefix(Rec, Common, PrefixListFilterGenerator):
        pass

    class Community(Rec, Common, CommunityListGenerator):
        pass

    class AsPath(Rec, Common, AsPathFilterGenerator):
        pass

    class Rd(Rec, Common, RDFilterFilterGenerator):
        pass

    class Cumulus(Common, CumulusPolicyGenerator):
        pass

    return dict(policy=Policy, prefix=Prefix, community=Community, aspath=AsPath, rd=Rd, cumulus=Cumulus)


def squash(s):
    return " ".join(str(s).split())


def tree_from_events(events):
    """the block structure the rows were yielded in"""
    root = {}
    stack = [root]
    for depth, text in events:
        for line in str(text).split("\n"):
            if not line.strip():
                continue
            del stack[depth + 1:]
            node = stack[depth].setdefault(squash(line), {})
            stack.append(node)
    return root


def plain(tree):
    return {squash(k): plain(v) for k, v in tree.items()}


# --- the reference reading of the ACL language ----------------------------------------------------------------------

def parse_acl(text):
    """-> list of (pattern words, is_global, children) by indentation"""
    root = []
    stack = [(-1, root)]
    for raw in textwrap.dedent(text or "").split("\n"):
        if not raw.strip():
            continue
        ind = len(raw) - len(raw.lstrip())
        words = raw.split()
        pattern = [w for w in words if not w.startswith("%")]
        is_global = any(w in ("%global", "%global=1") for w in words)
        while stack[-1][0] >= ind:
            stack.pop()
        node = (pattern, is_global, [])
        stack[-1][1].append(node)
        stack.append((ind, node[2]))
    return root


def acl_row_matches(pattern, row):
    rx = []
    for w in pattern:
        if w == "*":
            rx.append(r"\S+")
        elif w == "~":
            rx.append(r".+")
        elif w.endswith("$"):
            rx.append(re.escape(w[:-1]) + "$")
        else:
            rx.append(re.escape(w))
    return re.match("^" + r"\s+".join(rx) + r"(?:\s|$)", row) is not None


def uncovered_rows(tree, rules, path=()):
    res = []
    for row, children in tree.items():
        ms = [r for r in rules if acl_row_matches(r[0], row)]
        if not ms:
            res.append(" / ".join(path + (row,)))
            continue
        if any(r[1] for r in ms):
            continue     # %global: the row and all nested blocks
        res += uncovered_rows(children, [c for r in ms for c in r[2]], path + (row,))
    return res


# --- vendor syntax: where a policy row names a list, where a list row defines a name -------------------------------------

REFS = {
    "huawei": [
        (r"^if-match community-filter (\S+)$", "community"), (r"^if-match large-community-filter (\S+)$", "large"),
        (r"^if-match extcommunity-filter (\S+)(?: matches-all)?$", "ext"), (r"^if-match extcommunity-list soo (\S+)$", "soo"),
        (r"^if-match rd-filter (\S+)$", "rd"), (r"^if-match ip-prefix (\S+)$", "pl4"),
        (r"^if-match ipv6 address prefix-list (\S+)$", "pl6"), (r"^if-match as-path-filter (\S+)$", "aspath"),
        (r"^apply comm-filter (\S+) delete$", "community"), (r"^apply extcommunity-filter rt (\S+) delete$", "ext"),
    ],
    "arista": [
        (r"^match community (.+)$", "community"), (r"^match extcommunity (.+)$", "ext"), (r"^match large-community (.+)$", "large"),
        (r"^match ip address prefix-list (\S+)$", "pl4"), (r"^match ipv6 address prefix-list (\S+)$", "pl6"),
        (r"^match as-path (?!length )(\S+)$", "aspath"),
        (r"^set community community-list (.+?)(?: additive)?$", "community"),
        (r"^set large-community large-community-list (.+?)(?: additive| delete)?$", "large"),
    ],
    "cumulus": [
        (r"^match community (\S+)$", "community"), (r"^match large-community-list (\S+)$", "large"), (r"^match extcommunity (\S+)$", "ext"),
        (r"^match ip address prefix-list (\S+)$", "pl4"), (r"^match ipv6 address prefix-list (\S+)$", "pl6"),
        (r"^match as-path (\S+)$", "aspath"), (r"^set comm-list (\S+) delete$", "community"),
        (r"^set large-community ([^\s:]+) additive$", "large"), (r"^set extcommunity (?:rt|soo) ([^\s:]+) additive$", "ext"),
    ],
}
DEFS = {
    "huawei": [
        (r"^ip community-filter (?:basic|advanced) (\S+) index ", "community"), (r"^ip large-community-filter (?:basic|advanced) (\S+) index ", "large"),
        (r"^ip extcommunity-filter (?:basic|advanced) (\S+) index ", "ext"), (r"^ip extcommunity-list soo (?:basic|advanced) (\S+) index ", "soo"),
        (r"^ip rd-filter (\S+) index ", "rd"), (r"^ip ip-prefix (\S+) index ", "pl4"), (r"^ip ipv6-prefix (\S+) index ", "pl6"),
        (r"^ip as-path-filter (\S+) index ", "aspath"),
    ],
    "arista": [
        (r"^ip community-list (?:regexp )?(\S+) permit ", "community"), (r"^ip extcommunity-list (?:regexp )?(\S+) permit ", "ext"),
        (r"^ip large-community-list (?:regexp )?(\S+) permit ", "large"), (r"^ip prefix-list (\S+)$", "pl4"), (r"^ipv6 prefix-list (\S+)$", "pl6"),
        (r"^ip as-path access-list (\S+) permit ", "aspath"),
    ],
    "cumulus": [
        (r"^bgp community-list (?:standard|expanded) (\S+) seq ", "community"), (r"^bgp large-community-list (?:standard|expanded) (\S+) seq ", "large"),
        (r"^bgp extcommunity(?:-list)? (?:standard|expanded) (\S+) seq ", "ext"), (r"^ip prefix-list (\S+) seq ", "pl4"),
        (r"^ipv6 prefix-list (\S+) seq ", "pl6"), (r"^ip as-path access-list (\S+) permit ", "aspath"),
    ],
}
REF_FIELDS = {"community", "large_community", "extcommunity_rt", "extcommunity_soo", "rd", "as_path_filter", "ip_prefix", "ipv6_prefix"}


def names_in(rows, table):
    found = set()
    for row in rows:
        for rx, kind in table:
            m = re.match(rx, row)
            if m:
                for name in m.group(1).split():
                    found.add((kind, name))
    return found


def all_rows(tree):
    for row, ch in tree.items():
        yield row
        yield from all_rows(ch)


# --- per construct: what a single condition / action yields ----------------------------------------------------------------

HEADER = {
    "huawei": lambda name, res, num: "route-policy %s %s node %s" % (name, res, num),
    "arista": lambda name, res, num: "route-map %s %s %s" % (name, res, num),
    "cumulus": lambda name, res, num: "route-map %s %s %s" % (name, res, num),
}
RESULT_WORD = {"allow": "permit", "deny": "deny", "next": "permit"}
NEXT_ROW = {"huawei": "goto next-node", "arista": "continue", "cumulus": "on-match next"}


def policy_stream(vendor, variant, policies):
    """run the policy generator alone -> (rows [(depth, text)], exception or None); cumulus: only the route-map part"""
    gens = make_generators(policies, ents(variant))
    dev = device(vendor)
    if vendor == "cumulus":
        rows = []
        err = None
        try:
            for row in gens["cumulus"]().generate_cumulus_rpl(dev):
                rows.append(squash(" ".join(map(str, row))))
        except Exception as e:  # noqa
            err = e
        first = next((i for i, r in enumerate(rows) if r.startswith("route-map ")), len(rows))
        events = []
        inside = False
        for r in rows[first:]:
            if r == "!":
                inside = False
                continue
            if r.startswith("route-map "):
                events.append((0, r))
                inside = True
            else:
                events.append((1 if inside else 0, r))
        return events, err, rows[:first]
    g = gens["policy"](Mock())
    g.events = []
    err = None
    try:
        g(dev)
    except Exception as e:  # noqa
        err = e
    return [(d, squash(t)) for d, t in g.events], err, None


_construct_cache = {}


def construct_outcome(vendor, variant, kind, obj):
    """a condition (kind "cond") or an action (kind "act") alone in a statement `allow` -> (rows, error type name or None)"""
    key = (vendor, variant, kind, repr(obj))
    if key in _construct_cache:
        return _construct_cache[key]
    st = RoutingPolicyStatement(name="n1", number=1, match=AndCondition(*([obj] if kind == "cond" else [])), then=Action(),
                                result=ResultType.ALLOW)
    if kind == "act":
        st.then.append(obj)
    events, err, _ = policy_stream(vendor, variant, [RoutingPolicy("ISO", [st])])
    header = HEADER[vendor]("ISO", "permit", 1)
    if events and events[0] == (0, header):
        rows = [t for _, t in events[1:]]
        bad_header = False
    else:
        rows = [t for _, t in events]
        bad_header = bool(events) or err is None
    res = (rows, type(err).__name__ if err else None, str(err)[:150] if err else None, bad_header)
    _construct_cache[key] = res
    return res


# ---------------------------------------------------------------------------------------------------------------------
# one case
# ---------------------------------------------------------------------------------------------------------------------

def check_case(case):
    logging.disable(logging.CRITICAL)
    try:
        return _check_case(case)
    finally:
        logging.disable(logging.NOTSET)


def _check_case(case):
    fails = []
    vendor, variant = case["vendor"], case["ents"]
    dev = device(vendor)
    try:
        policies = build_policies(case)
    except Exception as e:  # noqa   (the DSL refuses the program: nothing to check)
        return [], False, dict(dsl_error="%s: %s" % (type(e).__name__, e))
    summary = {}

    # ---- per construct + the stream of the whole program
    # every condition / action of the program on its own (all of them: one rejected construct must not hide another)
    seen = set()
    for pol in policies:
        for st in pol.statements:
            for kind, objs in (("cond", list(st.match)), ("act", list(st.then))):
                for obj in objs:
                    if (kind, repr(obj)) in seen:
                        continue
                    seen.add((kind, repr(obj)))
                    rows, err, msg, bad_header = construct_outcome(vendor, variant, kind, obj)
                    what = "%s %r on %s" % ("condition" if kind == "cond" else "action", obj, vendor)
                    if bad_header:
                        fails.append((K + "statement-header:%s" % vendor, "the block of a single-construct statement does not start with the header",
                                      HEADER[vendor]("ISO", "permit", 1), rows[:3]))
                    if err and rows:
                        # any exception class: the statement only asks for "an error before any line for it"
                        fails.append((K + "error-after-lines:%s:%s" % (vendor, obj.field.value), "%s: rows were yielded for it and then it was rejected" % what,
                                      "rows and no error, or an error and no rows", dict(rows=rows, error=err, message=msg)))
                    if kind == "cond" and not err and obj.field in REF_FIELDS and rows and not names_in(rows, REFS[vendor]):
                        fails.append((K + "reference-not-recognised:%s" % vendor, "%s: the rows name no list the syntax table knows" % what, "a reference", rows))
    # the stream of the whole program = the per-construct streams one after another, cut at the first rejected construct
    expected_events = []
    expected_err = None
    for pol in policies:
        for st in pol.statements:
            if expected_err:
                break
            result = st.result.value
            if result not in RESULT_WORD:
                # next_policy: no vendor expresses it; any error before the first row of that statement is a proper rejection
                expected_err = "rejection of result %s" % result
                summary["unsupported-result"] = result
                break
            block = [(0, HEADER[vendor](pol.name, RESULT_WORD[result], st.number))]
            for kind, objs in (("cond", list(st.match)), ("act", list(st.then))):
                for obj in objs:
                    rows, err, msg, bad_header = construct_outcome(vendor, variant, kind, obj)
                    block += [(1, r) for r in rows]     # (rows before a rejection are reported above; here only compositionality)
                    if err:
                        expected_err = err
                        break
                if expected_err:
                    break
            if not expected_err and result == "next":
                block.append((1, NEXT_ROW[vendor]))
            expected_events += block
    events, err, cumulus_lists = policy_stream(vendor, variant, policies)
    got_err = type(err).__name__ if err else None
    if expected_err:
        # rejected: an error of any class, and nothing but complete rows of the constructs before it (the error may come
        # earlier than necessary, e.g. from the list part of cumulus)
        ok = got_err is not None and events == expected_events[:len(events)]
    else:
        ok = events == expected_events and got_err is None
    if not ok:
        fails.append((K + "stream!=per-construct:%s" % vendor, "the rows of the whole program are not the concatenation of the rows of its "
                      "conditions and actions (cut at the first rejected one)", dict(rows=expected_events, error=expected_err),
                      dict(rows=events, error=got_err, message=str(err)[:150] if err else None)))
    summary["policy_rows"] = len(events)
    summary["policy_error"] = got_err

    # ---- the generators: yielded nesting, ACL, names
    trees = {}
    rejected = {}
    if vendor == "cumulus":
        gens = make_generators(policies, ents(variant))
        rows = []
        cerr = None
        try:
            for row in gens["cumulus"]().generate_cumulus_rpl(dev):
                rows.append(" ".join(map(str, row)))
        except Exception as e:  # noqa
            cerr = e
        # the block structure it was generated in: rows between a route-map row and the next "!" belong to that route-map
        exp_tree = {}
        cur = None
        for r in rows:
            s = squash(r)
            if s == "!":
                cur = None
            elif s.startswith("route-map "):
                cur = exp_tree.setdefault(s, {})
            elif cur is not None:
                cur.setdefault(s, {})
            elif s:
                exp_tree.setdefault(s, {})
        try:
            parsed = plain(tabparser.parse_to_tree("\n".join(rows), tabparser.CommonFormatter().split))
        except tabparser.ParserError as e:
            parsed = "ParserError: %s" % e
        if parsed != exp_tree:
            fails.append((K + "parse!=yielded-nesting:cumulus", "cumulus text parsed back differs from the block structure it was generated in", exp_tree, parsed))
        if cerr is None:
            refs = names_in([r for t in exp_tree.values() for r in t], REFS[vendor])
            defs = names_in(list(exp_tree), DEFS[vendor])
            missing = sorted(refs - defs)
            if missing:
                fails.append((K + "referenced-list-not-defined:cumulus", "a route-map row refers to a list that the list part does not define under that name",
                              dict(referenced=sorted(refs)), dict(defined=sorted(defs), missing=missing)))
            summary["refs"] = len(refs)
        summary["rows"] = len(rows)
        nontrivial = bool(rows) or cerr is not None
        return fails, nontrivial, summary

    fmtr = registry_connector.get().match(dev.hw).make_formatter()
    for gname in ("policy", "prefix", "community", "aspath", "rd"):
        cls = make_generators(policies, ents(variant))[gname]
        g = cls(Mock())
        if not g.supports_device(dev):
            continue
        g.events = []
        try:
            out = g(dev)
        except Exception as e:  # noqa
            rejected[gname] = type(e).__name__
            out = None
        if out is not None:
            exp_tree = tree_from_events(g.events)
            trees[gname] = exp_tree
            try:
                parsed = plain(tabparser.parse_to_tree(out, fmtr.split))
            except tabparser.ParserError as e:
                parsed = "ParserError: %s" % e
            if parsed != exp_tree:
                fails.append((K + "parse!=yielded-nesting:%s:%s" % (vendor, gname), "%s generator on %s: the text parsed back differs from the blocks the rows were yielded in"
                              % (gname, vendor), exp_tree, parsed))
            unc = uncovered_rows(exp_tree, parse_acl(g.acl(dev)))
        else:
            unc = []
        # the real thing
        real = None
        real_err = None
        try:
            real = anngens._run_partial_generator(cls(Mock()), GeneratorPartialRunArgs(dev, use_acl=True))
        except GeneratorError as e:
            real_err = e.__cause__ if e.__cause__ is not None else e
        except Exception as e:  # noqa
            real_err = e
        if isinstance(real_err, AclError) or unc:
            fails.append((K + "acl-uncovered-line:%s:%s" % (vendor, gname), "%s generator on %s yields a row its own acl_%s does not cover" % (gname, vendor, vendor),
                          dict(uncovered=[], error=None),
                          dict(uncovered_by_reference_reading=unc, error=("%s: %s" % (type(real_err).__name__, real_err)) if real_err else None,
                               acl=textwrap.dedent(g.acl(dev) or "").strip())))
        elif real_err is not None:
            if out is not None:
                fails.append((K + "run_partial_generator-error", "%s generator on %s: the direct run succeeds, _run_partial_generator fails" % (gname, vendor),
                              None, "%s: %s" % (type(real_err).__name__, real_err)))
        elif real is not None and out is not None:
            if plain(real.config) != trees[gname]:
                fails.append((K + "acl-drops-lines:%s:%s" % (vendor, gname), "%s generator on %s: rows are lost in the ACL filter" % (gname, vendor), trees[gname], plain(real.config)))
        elif real is not None and out is None:
            fails.append((K + "run_partial_generator-error", "%s generator on %s: the direct run fails, _run_partial_generator does not" % (gname, vendor),
                          rejected[gname], "no error"))
    if not rejected and "policy" in trees:
        refs = names_in([r for t in trees["policy"].values() for r in t], REFS[vendor])
        defs = set()
        for gname in ("prefix", "community", "aspath", "rd"):
            if gname in trees:
                defs |= names_in(list(all_rows(trees[gname])), DEFS[vendor])
        missing = sorted(refs - defs)
        if missing:
            fails.append((K + "referenced-list-not-defined:%s" % vendor, "a policy row refers to a list that the matching list generator does not define under that name",
                          dict(referenced=sorted(refs)), dict(defined=sorted(defs), missing=missing)))
        summary["refs"] = len(refs)
    summary["rejected"] = rejected
    summary["rows"] = sum(len(list(all_rows(t))) for t in trees.values())
    nontrivial = summary["rows"] > 0 or bool(rejected)
    return fails, nontrivial, summary


# ---------------------------------------------------------------------------------------------------------------------
# enumeration
# ---------------------------------------------------------------------------------------------------------------------

VENDORS = ["huawei", "arista", "cumulus"]


def _stmt(number, conds, acts, result="allow"):
    return dict(number=number, conds=conds, acts=acts, result=result)


def _case(vendor, variant, stmts_by_policy):
    return dict(vendor=vendor, ents=variant,
                policies=[dict(name="P%d" % (i + 1), stmts=st) for i, st in enumerate(stmts_by_policy)])


def systematic(tier):
    C, A = cond_atoms(), act_atoms()
    # single constructs, every vendor, every entity variant, every result
    for vendor in VENDORS:
        for variant in (0, 1, 2):
            for i, c in enumerate(C):
                yield _case(vendor, variant, [[_stmt(10, [c], [], ["allow", "deny", "next"][i % 3])]])
            for i, a in enumerate(A):
                yield _case(vendor, variant, [[_stmt(10, [], [a], ["allow", "next", "deny"][i % 3])]])
        yield _case(vendor, 0, [[_stmt(10, [], [], "next_policy")]])
        yield _case(vendor, 0, [[_stmt(10, [], [], "allow")], []])
    step = 1 if tier == "thorough" else 4
    n = 0
    # one statement: condition x action, condition x condition, action x action
    for vendor in VENDORS:
        for c, a in itertools.product(C, A):
            n += 1
            if n % step == 0:
                yield _case(vendor, n % 2, [[_stmt(10, [c], [a], "allow")]])
        for c1, c2 in itertools.combinations(C, 2):
            if cond_field(c1) == cond_field(c2):
                continue
            n += 1
            if n % step == 0:
                yield _case(vendor, n % 2, [[_stmt(20, [c1, c2], [], "deny")]])
        for a1, a2 in itertools.combinations(A, 2):
            if act_field(a1) == act_field(a2):
                continue
            n += 1
            if n % step == 0:
                yield _case(vendor, n % 2, [[_stmt(30, [], [a1, a2], "next")]])


def random_case(rnd, tier):
    C, A = cond_atoms(), act_atoms()
    big = tier == "thorough"

    def stmt(number):
        conds, acts = [], []
        for c in rnd.sample(C, rnd.randint(0, 4 if big else 2)):
            if cond_field(c) not in [cond_field(x) for x in conds]:
                conds.append(c)
        for a in rnd.sample(A, rnd.randint(0, 4 if big else 2)):
            if act_field(a) not in [act_field(x) for x in acts]:
                acts.append(a)
        return _stmt(number, conds, acts, rnd.choice(["allow", "allow", "deny", "next", "next"] + (["next_policy"] if rnd.random() < 0.05 else [])))
    npol = rnd.choice([1, 1, 2]) if big else 1
    pols = []
    for _ in range(npol):
        ns = rnd.randint(1, 4 if big else 2)
        pols.append([stmt(10 * (i + 1)) for i in range(ns)])
    return _case(rnd.choice(VENDORS), rnd.choice([0, 0, 1, 2]), pols)


def cases(tier, seed):
    yield from systematic(tier)
    for i in range(3000 if tier == "quick" else 30000):
        yield ("random", i)


def materialize(item, tier, seed):
    if isinstance(item, dict):
        return item
    return random_case(random.Random("c14:%s:%s:%d" % (tier, seed, item[1])), tier)


def _j(x):
    return json.loads(json.dumps(x, sort_keys=True, default=str))


def run(tier="quick", seed=0, part=0, nparts=1):
    ev = 0
    nontrivial = set()
    failures = []
    per_key = {}
    samples = []
    i = -1
    for item in cases(tier, seed):
        i += 1
        if i % nparts != part:
            continue
        case = materialize(item, tier, seed)
        ev += 1
        fails, nt, summary = check_case(case)
        if nt:
            nontrivial.add(_hash(case))
        if part == 0 and nt and len(samples) < 2 and sum(len(s["conds"]) + len(s["acts"]) for p in case["policies"] for s in p["stmts"]) >= 2:
            samples.append(dict(case=_j(case), summary=_j(summary)))
        for key, text, exp, got in fails:
            per_key[key] = per_key.get(key, 0) + 1
            if per_key[key] <= 3:
                failures.append(dict(key=key, text=text, case=_j(case), expected=_j(exp), actual=_j(got)))
    nc, na = len(cond_atoms()), len(act_atoms())
    return dict(
        evaluations=ev, nontrivial=sorted(nontrivial), failures=failures, samples=samples,
        rule="programs over %d documented R.* condition atoms (community/large/rt/soo/rd has|has_any over 1..3 lists, interface, protocol, "
             "net_len, local_pref, metric, family, as_path_length ==,>=,<=,between, as_path_filter, match_v4/v6 with or_longer bounds) and "
             "%d rule.* action atoms (set_*/add_metric, community/large_community/extcommunity/extcommunity_rt/extcommunity_soo "
             "set|add|remove combinations, as_path set/prepend/delete/expand/expand_last_as, next_hop.*), results allow/deny/next(/next_policy); "
             "3 entity sets (base; AND/OR flipped; multi-regex lists); vendors huawei, arista (5 partial generators, directly and through "
             "_run_partial_generator(use_acl=True)) and cumulus (generate_cumulus_rpl). Systematic: every atom alone x vendor x entity set; "
             "%s condition x action, condition x condition, action x action pair in one statement x vendor; plus %d seeded random programs "
             "(<= %s). non-trivial = some generator yields rows or rejects the input; distinct by the hash of the case"
             % (nc, na, "every" if tier == "thorough" else "every 4th", 3000 if tier == "quick" else 30000,
                "2 statements x 2 conditions x 2 actions" if tier == "quick" else "2 policies x 4 statements x 4 conditions x 4 actions"),
        bound="<= 2 statements x 2 conditions x 2 actions (thorough: random up to 4), 3 vendors, 3 entity sets")


def replay(case):
    fails, _, summary = check_case(case)
    if fails:
        return dict(ok=False, expected=_j(fails[0][2]), actual=_j(fails[0][3]), key=fails[0][0])
    return dict(ok=True, expected=_j(summary), actual=_j(summary))
