"""C01 bounded layer: "Deploying the patch makes the diff empty (convergence)".

The REAL annet.api._diff_and_patch (custom rulebook through its `rb=` argument, stub device = object with `.hw`) and the
real formatter.cmd_paths are run on enumerated rulebooks x (old, new) pairs / chains; the command paths are executed by
the independent device simulator bounded/devsim.py (written from the property statement), then

  clause 1  dev_apply(old, cmd_paths(patch)) == new, restricted to rows the rulebook knows; unordered trees, plus the
            sequence of the rows governed by %ordered rules of every block                    key  not-converged:<class>
  clause 2  strip_unchanged(make_diff(dev', new, rb, [])) == []       (only when clause 1 holds)   second-diff-not-empty:<logic>
  clause 3  the patch of (dev', new) has no command                    (only when clause 1 holds)   second-patch-not-empty:<logic>

and the same along chains old -> new_1 -> ... -> new_k (the device state of step i+1 is the simulated result of step i).

Failure classes of clause 1 (every minimal differing path of dev' vs new is attributed to one class):
  permanent / ignore_changes   the path lies in or below a slot governed by such a rule whose row the pair removes or
                               replaces (permanent) / replaces (ignore_changes): the protected row stays by design
  permanent:other / ignore_changes:other   any other difference at a row governed by such a rule
  block-row-replaced:<logic>   an enclosing block row changed its text inside one slot (`blk 1` -> `blk 1 x`)
  rewrite:all-rows-removed     rows of %rewrite rules stay although `new` has no rewrite row in that block
  ordered / ordered:across-rules   only the order of %ordered rows differs (inside one rule / only between two rules)
  <logic>                      default, undo_redo, ordered, rewrite: everything else, by the logic of the differing row
  <vendor>:cmd_paths           juniper / routeros: the rows of the patch tree executed block by block do not show the
                               difference, the flattened commands of formatter.cmd_paths do
  undecodable:<vendor>         a flat (juniper / routeros) command that cannot be split back into a path
further keys  patch-raises:<exception> (the real pipeline raises on an in-scope input),
             undo_redo-yields-add-before-remove (the real logic function called on the real make_pre buckets of the step),
             block-nesting-broken:<vendor>  (huawei / cisco / arista: the CLI is stateful; a command path must be typed in the
block the previous commands left the CLI in: same block, the block just opened, or the enclosing one after the exit word)
"""
import itertools
import types
from collections import OrderedDict as odict

from bounded.common import setup_annet, h
from bounded import devsim, gen_rb
from bounded.gen_rb import to_tree, to_nested

K = "bounded:C01:"
VENDORS = [("huawei", "Huawei"), ("cisco", "Cisco"), ("arista", "Arista"), ("juniper", "Juniper"), ("routeros", "RouterOS")]
LOGICS = ["", "%logic=common.undo_redo", "%ordered", "%rewrite", "%logic=common.permanent", "%logic=common.ignore_changes"]
CORE = LOGICS[:4]


# ---------------------------------------------------------------------------------------------------------------------
# rulebook texts from the rule grammar.  spec = [(pattern, params, [child spec...]), ...]
def rb_text(spec, ind=0):
    out = []
    for pat, par, ch in spec:
        out.append("    " * ind + pat + (" " + par if par else ""))
        if ch:
            out.append(rb_text(ch, ind + 1).rstrip("\n"))
    return "\n".join(out) + "\n"


def order_text(spec, ind=0, rev=True):
    """an ordering rulebook naming the same patterns (reversed sibling order), globals left out"""
    out = []
    for pat, par, ch in (reversed(spec) if rev else spec):
        if "%global" in par or pat == "~":
            continue
        out.append("    " * ind + pat)
        if ch:
            sub = order_text(ch, ind + 1, rev)
            if sub:
                out.append(sub.rstrip("\n"))
    return "\n".join(out) + ("\n" if out else "")


NEGW = {"huawei": ("undoable", "undo-x"), "cisco": ("notification", "node-id"), "arista": ("notification", "node-id"),
        "juniper": ("deleted", "delete-x"), "routeros": ("removed", "remove-x")}


def rulebooks(tier):
    """-> list of (family, spec, vendors or None)"""
    return [(r + (None,) if len(r) == 2 else r) for r in _rulebooks(tier)]


def _rulebooks(tier):
    res = []
    shapes = lambda w: [w, w + " *", w + " ~"]
    # F1 one leaf rule
    for pat in shapes("a"):
        for lg in LOGICS:
            res.append(("F1", [(pat, lg, [])]))
    # F2 two leaf rules
    for (p1, p2) in [("a *", "b *"), ("b", "a ~")] + ([("b * *", "a")] if tier == "thorough" else []):
        for l1 in LOGICS:
            for l2 in LOGICS:
                res.append(("F2", [(p1, l1, []), (p2, l2, [])]))
    # F3 a more specific rule written before a general one
    for l1 in CORE:
        for l2 in CORE:
            res.append(("F3", [("a 1", l1, []), ("a *", l2, [])]))
    # F4 a block with one child rule
    for bl in LOGICS:
        for pat in shapes("a"):
            for lg in LOGICS:
                res.append(("F4", [("blk *", bl, [(pat, lg, [])])]))
    # F5 a block with two child rules
    for bl in LOGICS[:5]:
        for l1 in (LOGICS if bl == "" else CORE):
            for l2 in (LOGICS if bl == "" else CORE):
                res.append(("F5", [("blk *", bl, [("a *", l1, []), ("b *", l2, [])])]))
    # F6 %global rules
    for gl in ["", "%rewrite", "%ordered", "%logic=common.undo_redo"]:
        res.append(("F6", [("blk *", "", [("~", (gl + " %global").strip(), [])])]))
        res.append(("F6", [("blk ~", "", [("~", (gl + " %global").strip(), [])])]))
        res.append(("F6", [("blk *", "", []), ("~", (gl + " %global").strip(), [])]))
        for lg in LOGICS:
            res.append(("F6", [("blk *", "", [("a *", lg, [])]), ("~", (gl + " %global").strip(), [])]))
            res.append(("F6", [("blk *", "", [("a", "", [])]), ("g *", (lg + " %global").strip(), [])]))
    # F7 three / four top rules, logic combinations (all for thorough, a Latin-square like slice for quick)
    combos = list(itertools.product(LOGICS, repeat=3))
    if tier != "thorough":
        combos = [c for i, c in enumerate(combos) if i % 5 == 0]
    for (l1, l2, l3) in combos:
        res.append(("F7", [("a *", l1, []), ("b", l2, []), ("blk *", "", [("c ~", l3, [])]), ("~", "%global", [])]))
        res.append(("F7", [("c *", l3, []), ("blk *", l2, [("a *", l1, [])]), ("b ~", "", [])]))
    # F10 a block row matched by two block rules (a specific one written before a generic one) whose children key one child
    #     row differently (`ip address ~` below the first, `ip address *` below the second)
    for l1 in CORE:
        for l2 in CORE:
            res.append(("F10", [("blk */1\\d*/", "", [("ip address ~", l1, [])]), ("blk *", "", [("ip address *", l2, []), ("mtu *", "", [])])]))
    for bl in CORE:
        res.append(("F10", [("interface */Vlanif\\d+/", bl, [("ip address ~", "", [])]),
                            ("interface *", "", [("ip address *", "", []), ("mtu *", "", [])])]))
        res.append(("F10", [("blk */1\\d*/", bl, [("ip address * *", "", [])]), ("blk *", "", [("ip address *", "", [])]), ("~", "%global", [])]))
    # F11 rules whose first word merely begins with the vendor's negation word
    for vendor, (w1, w2) in NEGW.items():
        for lg in LOGICS:
            for l2 in ("", "%logic=common.undo_redo"):
                res.append(("F11", [(w1 + " *", lg, []), ("blk *", "", [(w2 + " *", l2, [])])], [vendor]))
        res.append(("F11", [(w1 + " host * ~", "", []), (w2 + " *", "", [(w1 + " ~", "", [])])], [vendor]))
    # F8 three levels
    if tier == "thorough":
        for bl in CORE:
            for sl in LOGICS:
                for lg in LOGICS:
                    res.append(("F8", [("blk *", bl, [("a *", "", []), ("sub *", sl, [("b *", lg, [])])])]))
        for l1 in LOGICS:
            for l2 in LOGICS:
                res.append(("F8", [("blk *", "", [("z *", l1, []), ("sub *", "", [("b *", l2, [])])]), ("~", "%global", [])]))
    else:
        for sl in CORE:
            for lg in CORE:
                res.append(("F8", [("blk *", "", [("z *", "", []), ("sub *", sl, [("b *", lg, [])])])]))
    return res


# ---------------------------------------------------------------------------------------------------------------------
# config trees that instantiate a rulebook
BLOCKW = ("blk", "sub", "interface", "undo-x", "node-id", "delete-x", "remove-x")
POOL = ["1", "2", "3", "10", "12", "Vlanif1", "Vlanif2", "x"]


def _values(tok, big):
    if tok == "*":
        return ["1", "2", "3"] if big else ["1", "2"]
    import re
    return [v for v in POOL if re.fullmatch(tok[2:-1], v)][:3 if big else 2]


def rows_of(rule, big=False, blockvar=False):
    """candidate rows of one rule (the words of the rule with the wildcards filled in)"""
    t = rule.tokens
    block = _is_blockish(rule)
    wild = [w for w in t if devsim._is_wild(w)]
    if t == ["~"]:
        return ["x 1", "y 1", "x 2"] + (["y 2 3"] if big else [])
    if t[-1] == "~":
        head = " ".join(_values(w, big)[0] if devsim._is_wild(w) else w for w in t[:-1])
        return [head + " 1", head + " 1 2"] + ([head + " 2"] if big else [])
    if wild:
        out = []
        vals = _values(wild[0], big)
        for n, v in enumerate(vals):
            base = " ".join((v if w == wild[0] else _values(w, big)[0]) if devsim._is_wild(w) else w for w in t)
            out.append(base)
            if n == 0 and (not block or blockvar):
                out.append(base + " x")
                if big and not block:
                    out.append(base + " y")
        return out
    base = " ".join(t)
    return [base] if (block and not blockvar) else [base, base + " x"]


def _is_blockish(rule):
    return bool(rule.children) or rule.tokens[0] in BLOCKW


def level_choices(ctx, big, blockvar):
    """-> list of slots; slot = list of candidate rows [(row, rule)] that share one (rule, key)"""
    slots = odict()
    for r in ctx.all():
        for row in rows_of(r, big, blockvar):
            rule, key = devsim.classify(ctx, row)
            slots.setdefault((rule.line, key), [])
            if (row, rule) not in slots[(rule.line, key)]:
                slots[(rule.line, key)].append((row, rule))
    return list(slots.values())


def _sequences(rows):
    """row lists in canonical order, with every order of the rows of order-sensitive (%ordered / %rewrite) rules"""
    fixed = [(row, rule) for row, rule in rows if not (devsim.flag(rule, "ordered") or devsim.flag(rule, "rewrite"))]
    sens = [(row, rule) for row, rule in rows if devsim.flag(rule, "ordered") or devsim.flag(rule, "rewrite")]
    if len(sens) < 2:
        return [rows]
    return [fixed + list(p) for p in itertools.permutations(sens)]


def all_levels(ctx, depth, maxrows, cap, big=False, blockvar=False, under_global=0):
    """all instances of one block body: list of nested [[row, children], ...]; None when more than cap"""
    slots = level_choices(ctx, big, blockvar)
    out = []
    child_cache = {}

    def children_of(rule, row):
        blockish = _is_blockish(rule) or (devsim.is_global(rule) and rule.tokens == ["~"] and under_global < 1 and row == "x 1")
        if depth <= 1 or not blockish:
            return [[]]
        cctx = devsim.child_ctx(ctx, rule, row)
        k = tuple(r.line for r in cctx.all())
        if k not in child_cache:
            ug = under_global + (1 if devsim.is_global(rule) else 0)
            child_cache[k] = all_levels(cctx, depth - 1, maxrows, cap, big, blockvar, ug) if cctx.all() else [[]]
        return child_cache[k]

    choice_lists = [[None] + s for s in slots]
    for combo in itertools.product(*choice_lists):
        rows = [c for c in combo if c is not None]
        if len(rows) > maxrows:
            continue
        for seq in _sequences(rows):
            chs = []
            for row, rule in seq:
                c = children_of(rule, row)      # only the row `x 1` of a catch-all global rule gets children
                if c is None:
                    return None
                chs.append(c)
            n = 1
            for c in chs:
                n *= len(c)
            if len(out) + n > cap:
                return None
            for sub in itertools.product(*chs):
                out.append([[row, list(s)] for (row, _), s in zip(seq, sub)])
    return out


def sample_level(rnd, ctx, depth, maxrows, big=False, blockvar=False, p=0.5, under_global=0):
    slots = level_choices(ctx, big, blockvar)
    rnd.shuffle(slots)
    rows = []
    for s in slots:
        if len(rows) >= maxrows:
            break
        if rnd.random() < p:
            rows.append(rnd.choice(s))
    rnd.shuffle(rows)
    out = []
    for row, rule in rows:
        ch = []
        blockish = _is_blockish(rule) or (devsim.is_global(rule) and rule.tokens == ["~"] and under_global < 1 and row == "x 1")
        if depth > 1 and blockish:
            cctx = devsim.child_ctx(ctx, rule, row)
            if cctx.all():
                ch = sample_level(rnd, cctx, depth - 1, maxrows, big, blockvar, p, under_global + (1 if devsim.is_global(rule) else 0))
        out.append([row, ch])
    return out


def mutate(rnd, ctx, tree, depth, maxrows, big=False, blockvar=False):
    """a neighbour of `tree`: rows dropped / re-sampled / added, order of siblings sometimes changed"""
    fresh = sample_level(rnd, ctx, depth, maxrows, big, blockvar, p=0.4)
    slot = lambda row: (lambda rk: (rk[0].line, rk[1]))(devsim.classify(ctx, row))
    out = []
    used = set()
    for row, ch in tree:
        x = rnd.random()
        rule, _ = devsim.classify(ctx, row)
        if x < 0.25:
            continue
        if x < 0.6 and ch:
            ch = mutate(rnd, devsim.child_ctx(ctx, rule, row), ch, depth - 1, maxrows, big, blockvar)
        out.append([row, ch])
        used.add(slot(row))
    for row, ch in fresh:
        if slot(row) in used or len(out) >= maxrows:
            continue
        used.add(slot(row))
        out.insert(rnd.randint(0, len(out)), [row, ch])
    if rnd.random() < 0.3:
        rnd.shuffle(out)
    return out


# ---------------------------------------------------------------------------------------------------------------------
# the real pipeline
_env = {}


def env(vendor, rbt, ordt):
    k = (vendor, rbt, ordt)
    e = _env.get(k)
    if e is None:
        setup_annet()
        from annet.vendors import registry_connector
        if len(_env) > 3000:
            _env.clear()
        hw = gen_rb.hw_of(dict(VENDORS)[vendor])
        rb = gen_rb.compile_rb(hw.vendor, rbt, ordt)
        fmt = registry_connector.get().match(hw).make_formatter()
        e = _env[k] = types.SimpleNamespace(hw=hw, rb=rb, fmt=fmt, stub=types.SimpleNamespace(hw=hw, hostname="stub", fqdn="stub"))
    return e


def real_step(e, dev, new):
    from annet.api import _diff_and_patch
    diff, patch = _diff_and_patch(e.stub, dev, new, None, None, add_comments=False, rb=e.rb)
    return diff, patch, [tuple(str(x) for x in p) for p in e.fmt.cmd_paths(patch).keys()]


def tree_paths(patch, prefix=()):
    """the rows of the patch tree as block paths, in emitted order (used only to attribute a failure to the flattening)"""
    out = []
    for item in patch.itms:
        row = str(item.row)
        out.append(prefix + (row,))
        if item.child is not None:
            out.extend(tree_paths(item.child, prefix + (row,)))
    return out


def _minimal_diffs(a, b, path=()):
    """paths present in exactly one of the trees whose parent is present in both -> [(path, 'extra'|'missing')] (a = device)"""
    out = []
    for k in a:
        if k not in b:
            out.append((path + (k,), "extra"))
        else:
            out.extend(_minimal_diffs(a[k], b[k], path + (k,)))
    for k in b:
        if k not in a:
            out.append((path + (k,), "missing"))
    return out


def _node(tree, path):
    n = tree
    for k in path:
        if k not in n:
            return None
        n = n[k]
    return n


def _slot_row(tree, block, rbt, rule, key):
    node = _node(tree, block)
    if node is None:
        return None
    return devsim.find_slot(node, devsim.ctx_at(rbt, block), rule, key)


def classify_divergence(rbt, before, new, d, side):
    gov = devsim.governing(d, rbt)
    # protected slots (the row itself or an enclosing block)
    for i, (rule, key) in enumerate(gov):
        lg = devsim.logic_of(rule)
        if lg in ("permanent", "ignore_changes"):
            o = _slot_row(before, d[:i], rbt, rule, key)
            n = _slot_row(new, d[:i], rbt, rule, key)
            if lg == "permanent" and o is not None and n != o:
                return "permanent"
            if lg == "ignore_changes" and o is not None and n is not None and n != o:
                return "ignore_changes"
    for i, (rule, key) in enumerate(gov[:-1]):
        o = _slot_row(before, d[:i], rbt, rule, key)
        if o is not None and o != d[i]:
            return "block-row-replaced:" + devsim.logic_of(rule)
    rule, key = gov[-1]
    lg = devsim.logic_of(rule)
    if lg in ("permanent", "ignore_changes"):
        return lg + ":other"
    if lg == "rewrite":
        # a rewrite row of this block whose text is replaced inside its slot (nothing is sent for it)?
        ctx = devsim.ctx_at(rbt, d[:-1])
        nb, nn = _node(before, d[:-1]) or {}, _node(new, d[:-1]) or {}
        for r in nn:
            r_rule, r_key = devsim.classify(ctx, r)
            if devsim.flag(r_rule, "rewrite"):
                o = devsim.find_slot(nb, ctx, r_rule, r_key)
                if o is not None and o != r:
                    return "rewrite:row-replaced-in-slot"
        if side == "extra" and not any(devsim.flag(devsim.classify(ctx, r)[0], "rewrite") for r in nn):
            return "rewrite:all-rows-removed"
    return lg


def _ordered_replaced(rbt, before, new, ctx=None, path=()):
    """does the step replace the text of a row of an %ordered rule inside its slot (same block path in both trees)?"""
    ctx = ctx or devsim.root_ctx(rbt)
    for row, ch in new.items():
        rule, key = devsim.classify(ctx, row)
        if rule is None:
            continue
        o = devsim.find_slot(before, ctx, rule, key)
        if devsim.flag(rule, "ordered") and o is not None and o != row:
            return True
        if o is not None and _ordered_replaced(rbt, before[o], ch, devsim.child_ctx(ctx, rule, row), path + (row,)):
            return True
    return False


def first_logic(rbt, diff, path=()):
    """logic of the rule of the first item (pre-order) of a stripped diff that is not merely `affected`"""
    for (op, row, ch, _m) in diff:
        if str(op) != "affected" and getattr(op, "value", op) != "affected":
            return devsim.logic_of(devsim.governing(path + (row,), rbt)[-1][0])
        sub = first_logic(rbt, ch, path + (row,))
        if sub:
            return sub
    return None


def undo_redo_yields(e, dev, new):
    """the statement's "undo emitted after the re-add": for every (rule, key) of an undo_redo rule whose row is replaced, the real
    logic function must yield the removal strictly before the re-creation (PatchTree.sort would hide the opposite for equal
    orders only by luck of the sort key).  -> list of offending (rule text, key, [direct flags])"""
    import copy
    from annet.annlib import patching
    from annet.types import Op
    bad = []

    def walk(pre, root):
        for raw_rule, content in pre.items():
            for key, diff in content["items"].items():
                if "%logic=common.undo_redo" in raw_rule and diff[Op.ADDED] and diff[Op.REMOVED] and not diff[Op.AFFECTED]:
                    ys = list(content["attrs"]["logic"](rule=copy.deepcopy(content["attrs"]), key=key, diff=diff, hw=e.hw,
                                                        rule_pre=content, root_pre=root))
                    flags = [d for (d, _r, _c) in ys if d is not None]
                    if flags != [False, True]:
                        bad.append((raw_rule, list(key), flags))
                for op in (Op.ADDED, Op.REMOVED, Op.MOVED, Op.AFFECTED, Op.UNCHANGED):
                    for it in diff[op]:
                        if it["children"]:
                            walk(it["children"], root)
    pre = patching.make_pre(patching.make_diff(dev, new, e.rb, []))
    walk(pre, pre)
    return bad


def compare(rbt, before, new, dev2):
    """clause 1 -> list of (class, where) ; empty = converged"""
    exp = devsim.known_part(new, rbt)
    got = devsim.known_part(dev2, rbt)
    res = []
    if devsim.plain(exp) != devsim.plain(got):
        classes = odict()
        for d, side in _minimal_diffs(got, exp):
            classes.setdefault(classify_divergence(rbt, before, new, d, side), []).append((" / ".join(d), side))
        res = list(classes.items())
    else:
        ov_e, ov_g = devsim.ordered_view(exp, rbt), devsim.ordered_view(got, rbt)
        if ov_e != ov_g:
            per_rule = lambda ov: {(p, ln): [r for (l2, r) in seq if l2 == ln] for p, seq in ov.items() for (ln, _) in seq}
            repl = None
            for bp in ov_e:
                if ov_e[bp] != ov_g.get(bp):
                    gov = devsim.governing(bp, rbt)
                    for i, (rule, key) in enumerate(gov):
                        o = _slot_row(before, bp[:i], rbt, rule, key)
                        if o is not None and o != bp[i]:
                            repl = repl or devsim.logic_of(rule)
            if per_rule(ov_e) == per_rule(ov_g):
                cls = "ordered:across-rules"
            elif repl:
                cls = "block-row-replaced:" + repl
            elif _ordered_replaced(rbt, before, new):
                cls = "ordered:row-replaced-in-slot"
            else:
                cls = "ordered"
            res = [(cls, "rows of %ordered rules end up in another order")]
    return res


def check_chain(vendor, rbt, ordt, chain):
    """-> (failures [(key, text, expected, actual)], info)"""
    from annet.annlib import patching
    e = env(vendor, rbt, ordt)
    fails = []
    info = dict(cmds=0, changed=0, ambiguous=0)
    dev = to_tree(chain[0])
    for step, newn in enumerate(chain[1:], start=1):
        new = to_tree(newn)
        try:
            diff, patch, cmds = real_step(e, dev, new)
        except Exception as err:  # noqa
            fails.append((K + "patch-raises:" + type(err).__name__, "step %d (%s): _diff_and_patch / cmd_paths raise on configurations "
                          "with at most one row per (rule, key): %s" % (step, vendor, str(err)[:200]), "a patch",
                          dict(before=to_nested(dev), desired=newn)))
            return fails, info
        info["cmds"] += len(cmds)
        try:
            dev2 = devsim.dev_apply(dev, cmds, rbt, vendor, schema=[new])
        except devsim.Ambiguous:
            info["ambiguous"] = 1
            return fails, info
        except devsim.Undecodable as err:
            fails.append((K + "undecodable:" + vendor, "step %d: a command cannot be split back into a path: %s" % (step, err),
                          None, dict(cmds=cmds)))
            return fails, info
        if "common.undo_redo" in rbt:
            ur = undo_redo_yields(e, dev, new)
            if ur:
                fails.append((K + "undo_redo-yields-add-before-remove", "step %d: the undo_redo logic does not yield the removal strictly "
                              "before the re-creation: %r" % (step, ur), [False, True], ur))
        bad = devsim.cli_walk(cmds, vendor)
        if bad is not None:
            fails.append((K + "block-nesting-broken:" + vendor,
                          "step %d: command #%d %r is not typed in the block the CLI stands in (%r): a block is left without / "
                          "before its exit word or entered without its opening command" % (step, bad[0], bad[1], bad[2]),
                          "every command in the block of its path", dict(cmds=cmds)))
        res = compare(rbt, dev, new, dev2)
        if res and vendor in devsim.FLAT:
            # is the flattening at fault?  execute the rows of the patch tree as block paths
            alt = devsim.dev_apply(dev, tree_paths(patch), rbt, vendor, structured=True)
            res_alt = compare(rbt, dev, new, alt)
            items = lambda r: {(c, w if isinstance(w, str) else x) for c, w in r for x in (w if not isinstance(w, str) else [w])}
            only_flat = items(res) - items(res_alt)
            if only_flat:
                res = res_alt + [(vendor + ":cmd_paths", "the patch tree executed block by block does not have these differences, "
                                  "its flattening by cmd_paths does: %r" % sorted(only_flat))]
        for cls, where in res:
            fails.append((K + "not-converged:" + cls,
                          "step %d (%s): executing the patch on the device does not give the desired configuration: %r" % (step, vendor, where),
                          dict(device=to_nested(devsim.known_part(new, rbt))),
                          dict(device=to_nested(devsim.known_part(dev2, rbt)), cmds=cmds, before=to_nested(dev))))
        if not res:
            try:
                d2 = patching.strip_unchanged(patching.make_diff(dev2, new, e.rb, []))
                _d, _p, cmds2 = real_step(e, dev2, new)
            except Exception as err:  # noqa
                fails.append((K + "patch-raises:" + type(err).__name__, "step %d (%s): the second diff / patch raises: %s" %
                              (step, vendor, str(err)[:200]), "an empty diff", dict(device=to_nested(dev2), desired=newn)))
                return fails, info
            if d2 != []:
                fails.append((K + "second-diff-not-empty:" + str(first_logic(rbt, d2)),
                              "step %d (%s): the device holds the desired configuration but the next diff is not empty" % (step, vendor), [],
                              dict(diff=[(str(op), row) for (op, row, _c, _m) in d2], device=to_nested(dev2), desired=newn)))
            if cmds2:
                fails.append((K + "second-patch-not-empty:" + str(first_logic(rbt, _d) or "none"),
                              "step %d (%s): the device holds the desired configuration but the next patch has commands" % (step, vendor), [],
                              dict(cmds=cmds2, device=to_nested(dev2), desired=newn)))
        if cmds:
            info["changed"] += 1
        dev = dev2
    return fails, info


# ---------------------------------------------------------------------------------------------------------------------
# enumeration
def _bounds(tier):
    if tier == "thorough":
        return dict(pair_cap=3600, ucap=1500, rnd_pairs=1000, chains=150, big=250)
    return dict(pair_cap=500, ucap=400, rnd_pairs=160, chains=24, big=0)


def cases(tier, seed, part=0, nparts=1):
    """yields (index, case dict) of this part, deterministically (every random case has its own generator)"""
    b = _bounds(tier)
    i = 0
    mine = lambda idx: idx % nparts == part
    for ri, (fam, spec, only) in enumerate(rulebooks(tier)):
        VL = [v for v in VENDORS if only is None or v[0] in only]
        rbt = rb_text(spec)
        ctx = devsim.root_ctx(rbt)
        depth = 3 if fam == "F8" else 2
        ords = ["", order_text(spec), order_text(spec, rev=False)]
        uni = all_levels(ctx, depth, 3, b["ucap"])
        exhaustive = uni is not None and len(uni) ** 2 <= b["pair_cap"]
        npairs = len(uni) ** 2 if exhaustive else b["rnd_pairs"]
        # every vendor for exhaustively explored small rulebooks in the thorough tier, a rotation otherwise
        allv = tier == "thorough" and exhaustive and npairs <= 700
        for j in range(npairs):
            vs = VL if allv else [VL[(ri + j) % len(VL)]]
            if not any(mine(i + x) for x in range(len(vs))):
                i += len(vs)
                continue
            if exhaustive:
                o, n = uni[j // len(uni)], uni[j % len(uni)]
            else:
                rnd = gen_rb.rng(seed, "c01p", tier, ri, j)
                if uni is not None and j % 2 == 0:
                    o, n = rnd.choice(uni), rnd.choice(uni)
                else:
                    o = rnd.choice(uni) if uni is not None else sample_level(rnd, ctx, depth, 3)
                    n = mutate(rnd, ctx, o, depth, 3)
            for (vendor, _m) in vs:
                if mine(i):
                    yield i, dict(vendor=vendor, rb=rbt, order=ords[(ri + j) % 3], chain=[o, n], fam=fam)
                i += 1
        # chains
        for j in range(b["chains"]):
            if mine(i):
                rnd = gen_rb.rng(seed, "c01c", tier, ri, j)
                k = 2 + (j % 2)
                if uni is not None and j % 3:
                    chain = [rnd.choice(uni) for _ in range(k + 1)]
                else:
                    chain = [rnd.choice(uni) if uni is not None else sample_level(rnd, ctx, depth, 3)]
                    for _ in range(k):
                        chain.append(mutate(rnd, ctx, chain[-1], depth, 3))
                yield i, dict(vendor=VL[(ri + j) % len(VL)][0], rb=rbt, order=ords[j % 3], chain=chain, fam=fam)
            i += 1
        # seeded random larger trees (thorough): <= 5 rows per level, three values, a replaced block row
        for j in range(b["big"] if fam in ("F5", "F6", "F7", "F8", "F10") else 0):
            if mine(i):
                rnd = gen_rb.rng(seed, "c01b", tier, ri, j)
                bv = j % 4 == 0
                chain = [sample_level(rnd, ctx, depth, 5, big=True, blockvar=bv, p=0.6)]
                for _ in range(1 + j % 3):
                    chain.append(mutate(rnd, ctx, chain[-1], depth, 5, big=True, blockvar=bv))
                yield i, dict(vendor=VL[(ri + j) % len(VL)][0], rb=rbt, order=ords[j % 3], chain=chain, fam=fam)
            i += 1
    # a replaced block row, small (quick tier too)
    for ri, bl in enumerate(LOGICS):
        rbt = rb_text([("blk *", bl, [("a *", "", [])])])
        uni = all_levels(devsim.root_ctx(rbt), 2, 2, 5000, blockvar=True)
        for j in range(300 if tier == "thorough" else 40):
            if mine(i):
                rnd = gen_rb.rng(seed, "c01v", tier, ri, j)
                yield i, dict(vendor=VENDORS[(ri + j) % len(VENDORS)][0], rb=rbt, order="", chain=[rnd.choice(uni), rnd.choice(uni)], fam="F9")
            i += 1


def run(tier="quick", seed=0, part=0, nparts=1):
    ev = 0
    nontrivial = set()
    failures = []
    per_key = {}
    samples = []
    fam_counts = {}
    steps = 0
    amb = 0
    for i, case in cases(tier, seed, part, nparts):
        ev += 1
        steps += len(case["chain"]) - 1
        fam_counts[case["fam"]] = fam_counts.get(case["fam"], 0) + 1
        fs, info = check_chain(case["vendor"], case["rb"], case["order"], case["chain"])
        amb += info["ambiguous"]
        if info["changed"]:
            nontrivial.add(h([case["vendor"], case["rb"], case["order"], case["chain"]]))
        if part == 0 and len(samples) < 2 and info["cmds"] >= 4 and case["fam"] in ("F5", "F7"):
            samples.append(case)
        for (k, text, exp, act) in fs:
            per_key[k] = per_key.get(k, 0) + 1
            if per_key[k] <= 3:
                failures.append(dict(key=k, text=text, case=case, expected=exp, actual=act))
    return dict(
        evaluations=ev, nontrivial=sorted(nontrivial), failures=failures, samples=samples, failure_counts=per_key,
        family_counts=fam_counts, patch_steps=steps, ambiguous=amb,
        rule="rulebook texts from the rule grammar (families F1 one leaf rule `a`/`a *`/`a ~` x 6 logics {default, undo_redo, "
             "%ordered, %rewrite, permanent, ignore_changes}; F2 two leaf rules x 36 logic pairs; F3 `a 1` before `a *`; F4/F5 a "
             "block `blk *` (6 logics) with one / two child rules; F6 `%global` rules (`~ %global` catch-all with default / "
             "%rewrite / %ordered / undo_redo, inside a block or at the top, `g * %global`); F7 three and four top rules; F8 three "
             "levels; F10 a block row matched by two block rules (`blk */1\\d*/` or `interface */Vlanif\\d+/` written before the "
             "generic `blk *` / `interface *`) whose children key one child row differently (`ip address ~` vs `ip address *`); "
             "F11 per vendor, rules whose first word merely begins with the negation word (undoable / undo-x, notification / "
             "node-id, deleted / delete-x, removed / remove-x)) compiled by the real compile_patching_text, with an empty / reversed / same-order ordering text through "
             "compile_ordering_text, for huawei, cisco, arista, juniper (flat set/delete commands split back by the simulator), "
             "routeros (menu commands); config trees = every choice of at most one row per (rule, key), <= 3 rows per level, "
             "depth <= 2 (F8: 3), every order of the rows of %ordered / %rewrite rules; ALL pairs (old, new) when the universe "
             "squared is <= the pair cap, else seeded random pairs (independent or a mutation of old); seeded chains of 2-3 "
             "successive targets; thorough adds every vendor on the small exhaustive universes and seeded larger trees (<= 5 "
             "rows per level, three values, replaced block rows). Non-trivial = the patch of some step has commands; distinct "
             "by (vendor, rulebook, ordering, chain)",
        bound="<= 4 top rules, <= 3 rule levels, <= 3 rows per level (random: 5), chains <= 3; caps %r" % _bounds(tier))


def replay(case):
    fs, info = check_chain(case["vendor"], case["rb"], case["order"], case["chain"])
    if fs:
        return dict(ok=False, key=fs[0][0], expected=fs[0][2], actual=fs[0][3], all=[f[0] for f in fs])
    return dict(ok=True, expected="converged", actual="converged")
