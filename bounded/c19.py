"""C19 bounded layer: file-based devices get each changed file once, from the winning generator.

Real code under test: annet.generators.run_file_generators (Entire generators, RunGeneratorResult.add_entire/new_files),
annet.api.PCDeployerJob.parse_result, annet.diff.pc_diff (UnifiedFileDiffer).  Real `Entire` subclasses are built for
every case; the device, the generator storage and the deploy driver are stubs (the driver contributes no commands).

Oracle (from the statement only):
  planned[path]      = (output, reload) of the generator with the greatest prio among those with that path
                       (safe mode: only if that generator is_safe)
  uploaded           = {p: planned[p].output.encode() for p in planned if old.get(p) != planned[p].output or force}
  reload cmds        = {p: planned[p].reload.encode() for p in uploaded} if entire_reload != no else {}
  pc_diff shows p    iff old.get(p) != planned[p].output

Failure keys (one per clause):
  bounded:C19:exception
  bounded:C19:argmax                 new_files() is not {path: argmax-prio generator's (output, reload)}
  bounded:C19:safe-filter            new_files(safe=True) is not the winners that are safe
  bounded:C19:upload-iff-differs     the set of uploaded files is wrong (entire_reload yes/no)
  bounded:C19:upload-when-forced     entire_reload=force does not upload every planned file
  bounded:C19:uploaded-bytes         uploaded bytes != generated content
  bounded:C19:reload-iff-enabled     reload cmds attached to the wrong set of files
  bounded:C19:reload-content         attached reload cmd is not the winning generator's
  bounded:C19:has-diff               has_diff()/deploy_cmds present although nothing is to be uploaded (or the reverse)
  bounded:C19:diff-empty-iff-equal   pc_diff shows a file whose text is unchanged / hides a changed one
upload-iff-differs and diff-empty-iff-equal are reported per offending file with a suffix when the file belongs to one of
these input classes (the class is a property of the input pair old/new only):
  :none-vs-empty    the file does not exist on the device (None) and the generated content is ""
  :final-newline    contents differ only in newlines at the very end
  :line-separator   contents differ only in the kind of line separator (\\r\\n vs \\n) and possibly final newlines
"""
import itertools
import os
import random

from bounded.common import setup_annet, h

setup_annet()

import annet.deploy  # noqa: E402
import annet.diff  # noqa: E402
from annet import cli_args  # noqa: E402
from annet.annlib.netdev.views import hardware  # noqa: E402
from annet.api import PCDeployerJob  # noqa: E402
from annet.deploy import CommandList  # noqa: E402
from annet.generators import run_file_generators  # noqa: E402
from annet.generators.entire import Entire  # noqa: E402
from annet.types import OldNewResult  # noqa: E402

PATHS = ["/etc/a.conf", "/etc/frr/b", "/c"]
NAMES = ["Gc", "Ga", "Gd", "Gb"]          # not in prio order, not in listing order
PRIOS = [5, None, 150, 1000]              # None: the class defines no `prio` (Entire.__init__ default 100)
DEFAULT_PRIO = 100
KINDS = [lambda t: t + "\n", lambda t: t, lambda t: "", lambda t: "a\n" + t + "\n", lambda t: "a\n" + t]
HOST = "host1"


# ---------------------------------------------------------------------------------------------------------------------
# stubs
class StubDevice:
    def __init__(self):
        self.hw = hardware.HardwareView("PC", "")      # vendor pc, not Cumulus/SONiC: the reload string is the generator's
        self.hostname = HOST
        self.fqdn = HOST + ".example.net"
        self.breed = "pc"
        self.id = 1


class StubStorage:
    def flush_perf(self):
        return {}


class StubDriver:
    def build_configuration_cmdlist(self, hw, do_finalize=True, do_commit=True):
        return CommandList(), CommandList()

    def build_exit_cmdlist(self, hw):
        return CommandList()


class StubArgs:
    def __init__(self, acl_safe, entire_reload):
        self.acl_safe = acl_safe
        self.entire_reload = cli_args.EntireReloadFlag(entire_reload)


_state = {}


def _setup():
    if "dev" in _state:
        return
    if annet.diff.file_differ_connector._classes is None:      # nothing registered: the stock differ
        annet.diff.file_differ_connector.set(annet.diff.UnifiedFileDiffer)
    _state["dev"] = StubDevice()
    _state["classes"] = {}


def _gen_class(g):
    key = (g["name"], g["path"], g["prio"], g["output"], g["reload"], g["is_safe"])
    cls = _state["classes"].get(key)
    if cls is None:
        ns = dict(
            path=lambda self, device, _v=g["path"]: _v,
            run=lambda self, device, _v=g["output"]: _v,
            reload=lambda self, device, _v=g["reload"]: _v,
            is_safe=lambda self, device, _v=g["is_safe"]: _v,
        )
        if g["prio"] is not None:
            ns["prio"] = g["prio"]
        cls = type(g["name"], (Entire,), ns)
        if len(_state["classes"]) > 20000:
            _state["classes"].clear()
        _state["classes"][key] = cls
    return cls


# ---------------------------------------------------------------------------------------------------------------------
# oracle
def planned(gens, safe):
    best = {}
    for g in gens:
        p = g["prio"] if g["prio"] is not None else DEFAULT_PRIO
        if g["path"] not in best or p > best[g["path"]][0]:
            best[g["path"]] = (p, g)
    # distinct prios per path is a precondition of the property
    for path in best:
        ps = [(g["prio"] if g["prio"] is not None else DEFAULT_PRIO) for g in gens if g["path"] == path]
        assert len(ps) == len(set(ps)), "scope error: equal prios for one path"
    return {path: (g["output"], g["reload"]) for path, (_, g) in best.items() if (not safe or g["is_safe"])}


def pair_class(old, new):
    """class of an (old content, new content) pair with old != new"""
    if old is None:
        return "none-vs-empty" if new == "" else "other"
    if old.rstrip("\n") == new.rstrip("\n"):
        return "final-newline"
    if old.replace("\r\n", "\n").rstrip("\n") == new.replace("\r\n", "\n").rstrip("\n"):
        return "line-separator"
    return "other"


def _classed(key, paths, old_files, new):
    """offending paths grouped by the class of their (old, new) pair -> [(key with class suffix, paths)]"""
    groups = {}
    for p in paths:
        o, n = old_files.get(p), (new[p][0] if p in new else None)
        c = pair_class(o, n) if (p in new and o != n) else "other"
        groups.setdefault(key if c == "other" else key + ":" + c, []).append(p)
    return sorted(groups.items())


# ---------------------------------------------------------------------------------------------------------------------
def check(case):
    """-> list of (key, text, expected, actual)"""
    _setup()
    dev = _state["dev"]
    gens = case["gens"]
    old_files = dict(case["old_files"])
    out = []
    exp_all = planned(gens, False)
    exp_safe = planned(gens, True)
    orig = annet.deploy.get_deployer
    annet.deploy.get_deployer = StubDriver
    try:
        objs = [_gen_class(g)(StubStorage()) for g in gens]
        res = run_file_generators(objs, dev)
        got_all = {p: tuple(v) for p, v in res.new_files().items()}
        got_safe = {p: tuple(v) for p, v in res.new_files(safe=True).items()}
        if got_all != exp_all:
            out.append(("bounded:C19:argmax", "new_files() is not the output of the highest-prio generator per path",
                        _jf(exp_all), _jf(got_all)))
        if got_safe != exp_safe:
            out.append(("bounded:C19:safe-filter", "new_files(safe=True) is not the set of safe winners", _jf(exp_safe), _jf(got_safe)))
        if case.get("select_only"):
            return out

        acl_safe = case["acl_safe"]
        mode = case["entire_reload"]
        # the job gets what the real run produced (as annet.gen does); the clauses below are relative to that plan, so a
        # selection error is reported by argmax/safe-filter only
        new = got_safe if acl_safe else got_all
        onr = OldNewResult(device=dev, old_files=dict(old_files), new_files=res.new_files(),
                           safe_new_files=res.new_files(safe=True) if acl_safe else {})
        job = PCDeployerJob(dev, StubArgs(acl_safe, mode))
        job.parse_result(onr)

        force = mode == "force"
        exp_upload = {p: c.encode() for p, (c, _r) in new.items() if old_files.get(p) != c or force}
        dc = job.deploy_cmds.get(dev)
        if len(job.deploy_cmds) > (1 if dc is not None else 0):
            out.append(("bounded:C19:has-diff", "deploy_cmds for an unknown device", [HOST], [str(k) for k in job.deploy_cmds]))
        got_upload = dict(dc["files"]) if dc else {}
        got_cmds = dict(dc["cmds"]) if dc else {}
        if set(got_upload) != set(exp_upload):
            bad = sorted(set(got_upload) ^ set(exp_upload))
            groups = [("bounded:C19:upload-when-forced", bad)] if force else _classed("bounded:C19:upload-iff-differs", bad, old_files, new)
            for key, ps in groups:
                out.append((key, "uploaded files %s, expected %s; offending %s with (old, new) = %s" % (
                    sorted(got_upload), sorted(exp_upload), ps, [(old_files.get(p), new[p][0]) for p in ps if p in new]),
                    _jb(exp_upload), _jb(got_upload)))
        wrong = {p for p in got_upload if p in new and got_upload[p] != new[p][0].encode()}
        if wrong:
            out.append(("bounded:C19:uploaded-bytes", "uploaded bytes differ from the generated content for %s" % sorted(wrong),
                        _jb({p: new[p][0].encode() for p in wrong}), _jb({p: got_upload[p] for p in wrong})))
        # reload: relative to what was really uploaded, so that an upload error is not reported twice
        exp_cmd_set = set(got_upload) if mode != "no" else set()
        if set(got_cmds) != exp_cmd_set:
            out.append(("bounded:C19:reload-iff-enabled", "entire_reload=%s: reload cmds attached to %s, uploaded %s" % (
                mode, sorted(got_cmds), sorted(got_upload)), sorted(exp_cmd_set), sorted(got_cmds)))
        wrong = {p for p in got_cmds if p in new and got_cmds[p] != new[p][1].encode()}
        if wrong:
            out.append(("bounded:C19:reload-content", "reload cmd is not the winning generator's for %s" % sorted(wrong),
                        _jb({p: new[p][1].encode() for p in wrong}), _jb({p: got_cmds[p] for p in wrong})))
        if bool(job.has_diff()) != bool(got_upload) or (dc is not None) != bool(got_upload):
            out.append(("bounded:C19:has-diff", "has_diff()=%r, deploy_cmds present=%r, uploaded files %s" % (
                job.has_diff(), dc is not None, sorted(got_upload)), bool(got_upload), bool(job.has_diff())))

        # the diff shown
        shown = set()
        unknown = []
        for df in annet.diff.pc_diff(dev.hw, HOST, dict(old_files), dict(new)):
            hit = [p for p in new if df.label.endswith(HOST + os.sep + p)]
            if len(hit) == 1:
                shown.add(hit[0])
            else:
                unknown.append(df.label)
        exp_shown = {p for p, (c, _r) in new.items() if old_files.get(p) != c}
        if shown != exp_shown or unknown:
            bad = sorted(shown ^ exp_shown)
            groups = _classed("bounded:C19:diff-empty-iff-equal", bad, old_files, new)
            if unknown:
                groups.append(("bounded:C19:diff-empty-iff-equal", []))
            for key, ps in groups:
                out.append((key, "pc_diff shows %s, contents differ for %s; offending %s with (old, new) = %s%s" % (
                    sorted(shown), sorted(exp_shown), ps, [(old_files.get(p), new[p][0]) for p in ps],
                    (" unknown labels %s" % unknown) if unknown else ""), sorted(exp_shown), sorted(shown)))
    except Exception as e:  # pylint: disable=broad-except
        out.append(("bounded:C19:exception", "exception %r" % e, None, repr(e)))
    finally:
        annet.deploy.get_deployer = orig
    return out


def _jf(files):
    return {p: list(v) for p, v in files.items()}


def _jb(files):
    return {p: (v.decode() if isinstance(v, bytes) else v) for p, v in files.items()}


# ---------------------------------------------------------------------------------------------------------------------
# enumeration
def make_gens(paths, safes, variant):
    """the SET of generators (index order); gen i: name NAMES[i], prio PRIOS[(i+variant)%4] (globally distinct)"""
    gens = []
    for i, (pi, sf) in enumerate(zip(paths, safes)):
        name = NAMES[i]
        gens.append(dict(name=name, path=PATHS[pi], prio=PRIOS[(i + variant) % 4],
                         output=KINDS[(2 * i + variant) % 5](name), reload="" if (i + variant) % 3 == 2 else "reload " + name,
                         is_safe=sf))
    return gens


def structures(n):
    """all sets of n generators x all listing orders"""
    for paths in itertools.product(range(3), repeat=n):
        for safes in itertools.product((False, True), repeat=n):
            for variant in range(5):
                gens = make_gens(paths, safes, variant)
                for order in itertools.permutations(range(n)):
                    yield [gens[j] for j in order]


N_REL = 8


def old_content(rel, new):
    """-> (present, content) of the device's file relative to the planned content"""
    if rel == 0:
        return False, None
    if rel == 1:
        return True, None
    if rel == 2:
        return True, ""
    if rel == 3:
        return True, new
    if rel == 4:
        return True, new + "\n"
    if rel == 5:
        return (True, new[:-1]) if new.endswith("\n") else (True, "other\n" + new)
    if rel == 6:
        return True, "other\n"
    return (True, new.replace("\n", "\r\n")) if "\n" in new else (True, new + " ")


def old_map(gens, r, acl_safe):
    """old file map: path j gets relation (r + 3*j) % 8 to the content planned for it; a path nobody generates may exist too"""
    plan = planned(gens, False)
    old = {}
    for j, p in enumerate(PATHS):
        rel = (r + 3 * j) % N_REL
        if p in plan:
            present, content = old_content(rel, plan[p][0])
        else:
            present, content = (rel % 2 == 0), "left alone\n"
        if present:
            old[p] = content
    return old


MODES = ["yes", "no", "force"]
N_COMBO = N_REL * 3 * 2

CONTENT_POOL = ["", "\n", "x", "x\n", "x\n\n", "x\ny", "x\ny\n", "y\nx\n", "x\r\ny\r\n", " x\n", "x \n", "z"]


def random_case(rnd):
    n = rnd.randint(1, 4)
    gens = []
    used = {}
    for i in range(n):
        path = rnd.choice(PATHS)
        while True:
            prio = rnd.choice([None, 0, 1, 2, 50, 99, 100, 101, 1000, -5])
            eff = DEFAULT_PRIO if prio is None else prio
            if eff not in used.setdefault(path, set()):
                used[path].add(eff)
                break
        gens.append(dict(name="R%d" % i, path=path, prio=prio, output=rnd.choice(CONTENT_POOL),
                         reload=rnd.choice(["", "reload R%d" % i, "systemctl reload x\nsleep 1"]), is_safe=rnd.random() < 0.5))
    old = {}
    for p in PATHS:
        r = rnd.random()
        if r < 0.15:
            continue
        old[p] = None if r < 0.25 else rnd.choice(CONTENT_POOL)
    return dict(gens=gens, old_files=old, entire_reload=rnd.choice(MODES), acl_safe=rnd.random() < 0.4)


def cases(tier, seed, part, nparts):
    quick = tier == "quick"
    i = -1
    # layer 1: selection only, every set of <= 4 generators in every listing order
    for n in (1, 2, 3, 4):
        for gens in structures(n):
            i += 1
            if i % nparts == part:
                yield dict(select_only=True, gens=gens, old_files={}, entire_reload="yes", acl_safe=False)
    # layer 2: the whole pipeline
    for n in (1, 2, 3, 4):
        stride = (1 if n < 3 or not quick else 2) if n < 4 else (97 if quick else 5)
        k = -1
        for gens in structures(n):
            for combo in range(N_COMBO):
                k += 1
                if k % stride:
                    continue
                i += 1
                if i % nparts != part:
                    continue
                r, rest = divmod(combo, 6)
                mode, acl_safe = MODES[rest // 2], bool(rest % 2)
                yield dict(gens=gens, old_files=old_map(gens, r, acl_safe), entire_reload=mode, acl_safe=acl_safe)
    # layer 3: seeded random extension (equal prios on different paths, arbitrary contents on both sides)
    rnd = random.Random(7919 * seed + 3)
    for _ in range(32000 if quick else 480000):
        c = random_case(rnd)
        i += 1
        if i % nparts == part:
            yield c


def nontrivial(case):
    gens = case["gens"]
    paths = [g["path"] for g in gens]
    competing = len(set(paths)) < len(paths)
    if case.get("select_only"):
        return competing
    new = planned(gens, case["acl_safe"])
    differ = [p for p in new if case["old_files"].get(p) != new[p][0]]
    return competing and bool(new) and (0 < len(differ) < len(new) or case["entire_reload"] != "yes")


def run(tier="quick", seed=0, part=0, nparts=1):
    ev = 0
    nt = set()
    failures = []
    per_key = {}
    samples = []
    for case in cases(tier, seed, part, nparts):
        ev += 1
        verdicts = check(case)
        if nontrivial(case):
            nt.add(h(case))
            if part == 0 and len(samples) < 2 and not case.get("select_only") and len(case["gens"]) >= 3:
                samples.append(case)
        for key, text, exp, act in verdicts:
            if per_key.get(key, 0) < 3:
                per_key[key] = per_key.get(key, 0) + 1
                failures.append(dict(key=key, text=text, case=case, expected=exp, actual=act))
    return dict(
        evaluations=ev, nontrivial=sorted(nt), failures=failures, samples=samples,
        rule="sets of 1..4 Entire generators over 3 paths (all path assignments, all is_safe flags, 5 variants rotating globally "
             "distinct prios {5, default 100, 150, 1000}, 5 output shapes (with/without final newline, empty, 2 lines), empty/"
             "non-empty reload) in ALL listing orders: (1) selection only, all of them; (2) whole pipeline x 8 old-file "
             "relations per path (absent, None, '', equal, +final newline, -final newline/other, other, CRLF/trailing blank; "
             "rotated over paths) x entire_reload {yes,no,force} x acl_safe {no,yes}: all for <= 3 generators (quick: every 2nd for 3), every %d-th "
             "for 4; (3) seeded random cases (prios equal across paths, contents from a pool of 12 on both sides). "
             "non-trivial: >= 2 generators compete for a path and (selection layer) / and some but not all planned files "
             "differ or reload mode != yes; distinct by content hash" % (97 if tier == "quick" else 5),
        bound="<= 4 generators, 3 paths, all listing orders, 8 old-content relations, 3 reload modes, safe/unsafe")


def replay(case):
    verdicts = check(case)
    if not verdicts:
        return dict(ok=True, expected=None, actual=None)
    key, text, exp, act = verdicts[0]
    return dict(ok=False, key=key, text=text, expected=exp, actual=act, all_keys=[v[0] for v in verdicts])
