"""C11 bounded layer: VLAN-list commands change exactly the VLANs that differ.

The REAL shipped huawei / cisco / nexus rulebooks and the real make_diff / make_pre / make_patch / formatter.cmd_paths
are run on a (before, after) pair of configs that hold one VLAN set written as range lists over 1..4 lines. The emitted
commands are then executed by an independent simulator of the device semantics given in the property statement:

  huawei : `<prefix> <list>` adds the listed VLANs, `undo <prefix> <list>` removes them, `undo <prefix> all` (for the
           stp instance: `undo instance N`) clears the set;  list syntax `a`, `a to b`, blank separated
  cisco  : `<prefix> add <list>` adds, `no <prefix> remove <list>` / `<prefix> remove <list>` removes, `<prefix> none`
           clears, a bare `<prefix> <list>` on a trunk REPLACES the set; for `vlan` / `vlan group G vlan-list`:
           `<prefix> <list>` adds, `no <prefix> <list>` removes;  list syntax `a`, `a-b`, comma separated

Checked: simulate(cmds, S_old) == S_new; every intermediate set contains S_old & S_new; expand(collapse(S)) == S for
the lib helpers (also against the independent list parser / renderer of this module)."""
import itertools
import random
import re

from bounded.common import setup_annet, h

UNIVERSE8 = [2, 3, 4, 5, 10, 11, 20, 30]
UNIVERSE7 = [2, 3, 4, 10, 11, 20, 30]
UNIVERSE6 = [2, 3, 4, 10, 11, 20]
MAX_LINES = 4

# kind id -> description of where the VLAN lines live and how the vendor spells things
KINDS = {
    "huawei:multi_all:trunk-allow-pass": dict(hw="Huawei CE6870", block="interface 10GE1/0/1", prefix="port trunk allow-pass vlan", fam="huawei",
                                              clear="undo port trunk allow-pass vlan all"),
    "huawei:multi_all:hybrid-tagged": dict(hw="Huawei CE6870", block="interface 10GE1/0/1", prefix="port hybrid tagged vlan", fam="huawei",
                                           clear="undo port hybrid tagged vlan all"),
    "huawei:multi_all:hybrid-untagged": dict(hw="Huawei CE6870", block="interface 10GE1/0/1", prefix="port hybrid untagged vlan", fam="huawei",
                                             clear="undo port hybrid untagged vlan all"),
    "huawei:multi:vlan-batch": dict(hw="Huawei CE6870", block=None, prefix="vlan batch", fam="huawei", clear="undo vlan batch all"),
    "huawei:single:stp-instance": dict(hw="Huawei CE6870", block="stp region-configuration", prefix="instance 1 vlan", fam="huawei",
                                       clear="undo instance 1", max_lines=1),
    "cisco:swtrunk:allowed-vlan": dict(hw="Cisco Catalyst 3750", block="interface GigabitEthernet1/0/1", prefix="switchport trunk allowed vlan",
                                       fam="cisco-trunk"),
    "nexus:swtrunk:allowed-vlan": dict(hw="Cisco Nexus", block="interface Ethernet1/1", prefix="switchport trunk allowed vlan", fam="cisco-trunk"),
    "cisco:simple:vlan": dict(hw="Cisco Catalyst 3750", block=None, prefix="vlan", fam="cisco-simple"),
    "nexus:simple:vlan": dict(hw="Cisco Nexus", block=None, prefix="vlan", fam="cisco-simple"),
    "cisco:simple:vlan-group": dict(hw="Cisco Catalyst 3750", block=None, prefix="vlan group G1 vlan-list", fam="cisco-simple"),
}
PRINCIPAL = ["huawei:multi_all:trunk-allow-pass", "nexus:swtrunk:allowed-vlan"]
UNIVERSE5 = [2, 3, 4, 10, 11]
# thorough tier: kinds whose splittings are exhaustive on the 8-element universe / on the 7-element universe (others: 6)
FULL8 = ["huawei:multi_all:trunk-allow-pass"]
SEVEN = ["nexus:swtrunk:allowed-vlan", "huawei:multi:vlan-batch"]
# (the rule `vlan pool * / vlan *` also uses huawei.vlandb.multi; it is not one of the VLAN-list kinds the statement
#  enumerates and is outside the scope of this module)


# ---------------------------------------------------------------- independent list syntax (written from the vendor CLI forms)
def runs(vlans):
    """maximal runs [lo, hi] of a set of ints, ascending"""
    out = []
    for v in sorted(set(vlans)):
        if out and out[-1][1] == v - 1:
            out[-1][1] = v
        else:
            out.append([v, v])
    return out


def render(fam, rs, pair_as_range=True):
    """a list of runs -> the list part of one config line"""
    toks = []
    for lo, hi in rs:
        if lo == hi:
            toks.append([str(lo)])
        elif hi == lo + 1 and not pair_as_range:
            toks.append([str(lo), str(hi)])
        elif fam == "huawei":
            toks.append(["%d to %d" % (lo, hi)])
        else:
            toks.append(["%d-%d" % (lo, hi)])
    flat = [t for tt in toks for t in tt]
    return " ".join(flat) if fam == "huawei" else ",".join(flat)


def parse_list(fam, text):
    """the list part of a line/command -> set of ints; None if it is not a well-formed list"""
    out = set()
    if fam == "huawei":
        toks = text.split()
        i = 0
        if not toks:
            return None
        while i < len(toks):
            if not toks[i].isdigit():
                return None
            lo = int(toks[i])
            if i + 1 < len(toks) and toks[i + 1] == "to":
                if i + 2 >= len(toks) or not toks[i + 2].isdigit():
                    return None
                hi = int(toks[i + 2])
                if hi < lo:
                    return None
                out.update(range(lo, hi + 1))
                i += 3
            else:
                out.add(lo)
                i += 1
        return out
    for item in text.split(","):
        m = re.fullmatch(r"\s*(\d+)\s*(?:-\s*(\d+)\s*)?", item)
        if not m:
            return None
        lo = int(m.group(1))
        hi = int(m.group(2)) if m.group(2) else lo
        if hi < lo:
            return None
        out.update(range(lo, hi + 1))
    return out


def config_lines(kind, parts):
    """parts = the list parts of the lines (or the marker 'none') -> full config rows"""
    k = KINDS[kind]
    rows = []
    for n, part in enumerate(parts):
        if k["fam"] == "cisco-trunk" and n > 0 and part != "none":
            rows.append("%s add %s" % (k["prefix"], part))
        else:
            rows.append("%s %s" % (k["prefix"], part))
    return rows


def config_text(kind, parts):
    k = KINDS[kind]
    rows = config_lines(kind, parts)
    if k["block"]:
        return "\n".join([k["block"]] + [" " + r for r in rows]) + "\n"
    return "\n".join(rows) + ("\n" if rows else "")


def set_of_parts(kind, parts):
    fam = "huawei" if KINDS[kind]["fam"] == "huawei" else "cisco"
    s = set()
    for p in parts:
        if p != "none":
            s |= parse_list(fam, p)
    return s


# ---------------------------------------------------------------- device simulator (the oracle)
def simulate(kind, cmds, s_old):
    """-> (list of (cmd, effect, set after)), or raises ValueError(cmd) for a command the statement gives no meaning to"""
    k = KINDS[kind]
    fam = k["fam"]
    p = k["prefix"]
    cur = set(s_old)
    trace = []
    for c in cmds:
        c = " ".join(c.split())
        eff = None
        if fam == "huawei":
            if c == k["clear"]:
                eff = ("clear", set())
            elif c.startswith("undo " + p + " "):
                eff = ("remove", parse_list("huawei", c[len("undo " + p + " "):]))
            elif c.startswith(p + " "):
                eff = ("add", parse_list("huawei", c[len(p) + 1:]))
        elif fam == "cisco-trunk":
            if c == p + " none":
                eff = ("clear", set())
            elif c.startswith(p + " add "):
                eff = ("add", parse_list("cisco", c[len(p) + 5:]))
            elif c.startswith(p + " remove "):
                eff = ("remove", parse_list("cisco", c[len(p) + 8:]))
            elif c.startswith("no " + p + " remove "):
                eff = ("remove", parse_list("cisco", c[len(p) + 11:]))
            elif c.startswith(p + " "):
                eff = ("set", parse_list("cisco", c[len(p) + 1:]))
        else:
            if c.startswith("no " + p + " "):
                eff = ("remove", parse_list("cisco", c[len(p) + 4:]))
            elif c.startswith(p + " "):
                eff = ("add", parse_list("cisco", c[len(p) + 1:]))
        if eff is None or eff[1] is None:
            raise ValueError(c)
        if eff[0] == "clear":
            cur = set()
        elif eff[0] == "add":
            cur = cur | eff[1]
        elif eff[0] == "remove":
            cur = cur - eff[1]
        else:
            cur = set(eff[1])
        trace.append((c, eff[0], set(cur)))
    return trace


# ---------------------------------------------------------------- the code under test
_ctx = {}


def _context(hwname):
    if hwname not in _ctx:
        setup_annet()
        from annet import rulebook
        from annet.vendors import registry_connector
        from annet.annlib.netdev.views.hardware import HardwareView
        hw = HardwareView(hwname, None)
        rb = rulebook.get_rulebook(hw)
        fm = registry_connector.get().match(hw).make_formatter(indent="")
        _ctx[hwname] = (hw, rb, fm)
    return _ctx[hwname]


def emitted(kind, old_parts, new_parts):
    """the commands the real rulebook emits for the VLAN lines, in order"""
    from annet import patching, tabparser
    k = KINDS[kind]
    hw, rb, fm = _context(k["hw"])
    old = tabparser.parse_to_tree(config_text(kind, old_parts), fm.split)
    new = tabparser.parse_to_tree(config_text(kind, new_parts), fm.split)
    diff = patching.make_diff(old, new, rb, [])
    pre = patching.make_pre(diff)
    pt = patching.make_patch(pre=pre, rb=rb, hw=hw, add_comments=False)
    cmds = []
    for path in fm.cmd_paths(pt):
        path = tuple(path)
        if k["block"]:
            if len(path) == 2 and path[0] == k["block"] and path[1] not in ("quit", "exit"):
                cmds.append(path[1])
            elif len(path) == 1 and path[0] == k["block"]:
                pass
            elif len(path) == 2 and path[0] == k["block"]:
                pass
            else:
                cmds.append("<outside the block> " + " / ".join(path))
        else:
            if len(path) == 1:
                cmds.append(path[0])
            elif path[-1] in ("quit", "exit"):
                pass
            else:
                cmds.append("<nested> " + " / ".join(path))
    return cmds


# ---------------------------------------------------------------- huawei: global `vlan N` blocks next to `vlan batch` lines (vlan_diff)
VD = "huawei:vlan_diff:batch+blocks"
VD_HW = "Huawei CE6870"
BLOCK_STATES = ["absent", "empty", "named"]      # no `vlan N` block / `vlan N` without children / `vlan N` with a `name` line


def vd_text(batch_parts, blocks):
    rows = ["vlan batch %s" % p for p in batch_parts]
    for n, st in sorted(blocks.items(), key=lambda x: int(x[0])):
        if st == "empty":
            rows.append("vlan %s" % n)
        elif st == "named":
            rows += ["vlan %s" % n, " name V%s" % n]
    return "\n".join(rows) + ("\n" if rows else "")


def vd_set(batch_parts, blocks):
    """the VLANs that exist on the device: those of the batch lines and those with a global block"""
    s = set()
    for p in batch_parts:
        s |= parse_list("huawei", p)
    return s | set(int(n) for n, st in blocks.items() if st != "absent")


def vd_emitted(case):
    from annet import patching, tabparser
    hw, rb, fm = _context(VD_HW)
    old = tabparser.parse_to_tree(vd_text(case["old_lines"], case["old_blocks"]), fm.split)
    new = tabparser.parse_to_tree(vd_text(case["new_lines"], case["new_blocks"]), fm.split)
    diff = patching.make_diff(old, new, rb, [])
    pt = patching.make_patch(pre=patching.make_pre(diff), rb=rb, hw=hw, add_comments=False)
    return [tuple(p) for p in fm.cmd_paths(pt)]


def vd_simulate(paths, s_old):
    """device semantics: `vlan batch L` creates, `undo vlan batch L` deletes the listed VLANs, entering `vlan N` creates N,
    `undo vlan N` deletes VLAN N from the device altogether (batch membership included); lines inside a vlan block
    (name ...) do not change the set"""
    cur = set(s_old)
    trace = []
    for path in paths:
        if len(path) > 1:
            if re.fullmatch(r"vlan \d+", path[0]):
                continue
            raise ValueError(" / ".join(path))
        c = " ".join(path[0].split())
        if c.startswith("undo vlan batch "):
            l = parse_list("huawei", c[len("undo vlan batch "):])
            eff = "remove"
        elif c.startswith("vlan batch "):
            l = parse_list("huawei", c[len("vlan batch "):])
            eff = "add"
        elif re.fullmatch(r"undo vlan \d+( to \d+)?", c):
            l = parse_list("huawei", c[len("undo vlan "):])
            eff = "undo-vlan"
        elif re.fullmatch(r"vlan \d+", c):
            l = {int(c.split()[1])}
            eff = "add"
        else:
            raise ValueError(c)
        if l is None:
            raise ValueError(c)
        cur = cur | l if eff == "add" else cur - l
        trace.append((c, eff, set(cur)))
    return trace


def check_vlan_diff(case):
    s_old = vd_set(case["old_lines"], case["old_blocks"])
    s_new = vd_set(case["new_lines"], case["new_blocks"])
    kept = s_old & s_new
    expected = dict(final=sorted(s_new), never_removed=sorted(kept))
    try:
        paths = vd_emitted(case)
    except Exception as e:
        return False, key_of(VD, "exception"), "make_patch raises", expected, "%s: %s" % (type(e).__name__, e)
    cmds = [" / ".join(p) for p in paths]
    try:
        trace = vd_simulate(paths, s_old)
    except ValueError as e:
        return False, key_of(VD, "unknown-command"), "a command the device semantics of the statement does not know: %r" % str(e), expected, cmds
    actual = dict(commands=cmds, final=sorted(trace[-1][2] if trace else s_old))
    for (c, eff, after) in trace:
        if not kept <= after:
            actual["lost_after"] = c
            actual["lost"] = sorted(kept - after)
            cls = "undo-vlan-wipes-kept-vlan" if eff == "undo-vlan" else "transient-removal"
            return (False, key_of(VD, cls), "VLANs %s present in both configs are deleted by %r" % (sorted(kept - after), c), expected, actual)
    if (trace[-1][2] if trace else s_old) != s_new:
        return False, key_of(VD, "final-set"), "executing the commands on S_old does not give S_new", expected, actual
    return True, None, None, expected, actual


def vd_cases(tier):
    """`vlan batch` over 1..3 lines in old and new (all pairs of subsets x all splittings of a small universe) x one VLAN N that
    is in the batch before and after x every (old, new) state of its global block except absent/absent; thorough also two
    such N at once"""
    universe = [2, 3, 10, 11] if tier == "quick" else UNIVERSE5
    vs = variants("huawei:multi:vlan-batch", universe, 3)
    for o in vs:
        so = set_of_parts("huawei:multi:vlan-batch", o)
        for n in vs:
            both = sorted(so & set_of_parts("huawei:multi:vlan-batch", n))
            for x in both:
                for a in BLOCK_STATES:
                    for b in BLOCK_STATES:
                        if a == b == "absent":
                            continue
                        yield dict(kind=VD, old_lines=list(o), new_lines=list(n), old_blocks={str(x): a}, new_blocks={str(x): b})
            if tier != "quick" and len(both) >= 2:
                x, y = both[0], both[-1]
                for (a, b) in (("named", "absent"), ("empty", "absent"), ("named", "empty"), ("absent", "named")):
                    yield dict(kind=VD, old_lines=list(o), new_lines=list(n), old_blocks={str(x): a, str(y): a},
                               new_blocks={str(x): b, str(y): b})


def key_of(kind, cls):
    vendor, logic, _ = kind.split(":")
    return "bounded:C11:%s:%s:%s" % (vendor, logic, cls)


def check_case(case):
    """-> (ok, key, text, expected, actual)"""
    kind = case["kind"]
    if kind == "lib":
        return check_lib(case)
    if kind == VD:
        return check_vlan_diff(case)
    s_old = set_of_parts(kind, case["old_lines"])
    s_new = set_of_parts(kind, case["new_lines"])
    kept = s_old & s_new
    expected = dict(final=sorted(s_new), never_removed=sorted(kept))
    try:
        cmds = emitted(kind, case["old_lines"], case["new_lines"])
    except Exception as e:  # the real code must not fall over on a well-formed VLAN config
        return False, key_of(kind, "exception"), "make_patch raises", expected, "%s: %s" % (type(e).__name__, e)
    try:
        trace = simulate(kind, cmds, s_old)
    except ValueError as e:
        return False, key_of(kind, "unknown-command"), "a command the device semantics of the statement does not know: %r" % str(e), expected, cmds
    actual = dict(commands=cmds, final=sorted(trace[-1][2] if trace else s_old))
    for (c, eff, after) in trace:
        if not kept <= after:
            actual["lost_after"] = c
            actual["lost"] = sorted(kept - after)
            if eff == "clear":
                return (False, key_of(kind, "clear-wipes-kept-vlans"),
                        "a clear-all command is emitted although VLANs %s are in both the old and the new set" % sorted(kept - after), expected, actual)
            return (False, key_of(kind, "transient-removal"),
                    "VLANs %s present in both sets are removed by %r" % (sorted(kept - after), c), expected, actual)
    final = trace[-1][2] if trace else s_old
    if final != s_new:
        return False, key_of(kind, "final-set"), "executing the commands on S_old does not give S_new", expected, actual
    return True, None, None, expected, actual


def check_lib(case):
    from annet.annlib import lib
    s = set(case["vlans"])
    chunk = case.get("chunk", 0)
    exp = sorted(s)
    act = {}
    ok = True
    # huawei
    try:
        col = lib.huawei_collapse_vlandb(s, chunk_len=chunk) if chunk else lib.huawei_collapse_vlandb(s)
        flat = [x for c in col for x in c] if chunk else list(col)
        text = " ".join(flat)
        act["huawei_collapse"] = col
        a = sorted(lib.huawei_expand_vlandb(text))
        b = parse_list("huawei", text)
        c = sorted(lib.huawei_expand_vlandb(render("huawei", runs(s))))
        d = sorted(lib.huawei_expand_vlandb(render("huawei", runs(s), pair_as_range=False)))
        act["huawei_expand(collapse)"] = a
        if a != exp:
            return False, "bounded:C11:lib:huawei:expand-collapse", "huawei_expand_vlandb(huawei_collapse_vlandb(S)) != S", exp, act
        if b is None or sorted(b) != exp:
            return False, "bounded:C11:lib:huawei:collapse", "huawei_collapse_vlandb(S) does not denote S", exp, act
        if c != exp or d != exp:
            act["huawei_expand(reference rendering)"] = [c, d]
            return False, "bounded:C11:lib:huawei:expand", "huawei_expand_vlandb of the reference rendering of S != S", exp, act
        if chunk and (any(len(x) > chunk or not x for x in col)):
            return False, "bounded:C11:lib:huawei:chunks", "chunk longer than chunk_len or empty", "chunks of <= %d" % chunk, act
        for tiny in (True, False):
            col = lib.cisco_collapse_vlandb(s, tiny)
            text = ",".join(col)
            act["cisco_collapse(tiny_ranges=%s)" % tiny] = col
            a = sorted(lib.cisco_expand_vlandb(text))
            b = parse_list("cisco", text)
            if a != exp:
                act["cisco_expand(collapse)"] = a
                return False, "bounded:C11:lib:cisco:expand-collapse", "cisco_expand_vlandb(cisco_collapse_vlandb(S)) != S", exp, act
            if b is None or sorted(b) != exp:
                return False, "bounded:C11:lib:cisco:collapse", "cisco_collapse_vlandb(S) does not denote S", exp, act
        c = sorted(lib.cisco_expand_vlandb(render("cisco", runs(s))))
        d = sorted(lib.cisco_expand_vlandb(render("cisco", runs(s), pair_as_range=False).replace(",", ", ")))
        if c != exp or d != exp:
            act["cisco_expand(reference rendering)"] = [c, d]
            return False, "bounded:C11:lib:cisco:expand", "cisco_expand_vlandb of the reference rendering of S != S", exp, act
    except Exception as e:
        return False, "bounded:C11:lib:exception", "lib helper raises", exp, "%s: %s" % (type(e).__name__, e)
    return ok, None, None, exp, act


# ---------------------------------------------------------------- enumeration
def subsets(universe):
    for m in range(1 << len(universe)):
        yield [universe[i] for i in range(len(universe)) if (m >> i) & 1]


def compositions(n, max_parts):
    """all ways to cut a list of n items into 1..max_parts contiguous non-empty groups, as lists of (start, end)"""
    if n == 0:
        yield []
        return
    for parts in range(1, min(n, max_parts) + 1):
        for cuts in itertools.combinations(range(1, n), parts - 1):
            b = (0,) + cuts + (n,)
            yield [(b[i], b[i + 1]) for i in range(parts)]


_var_cache = {}


def variants(kind, universe, max_lines):
    """every (set, tuple of line list-parts) for the subsets of the universe: all splittings of the run list over
    1..max_lines lines; for the cisco trunk the empty set also as the explicit line `... none`"""
    k = KINDS[kind]
    fam = "huawei" if k["fam"] == "huawei" else "cisco"
    max_lines = min(max_lines, k.get("max_lines", max_lines))
    ck = (fam, k["fam"] == "cisco-trunk", tuple(universe), max_lines)
    if ck in _var_cache:
        return _var_cache[ck]
    out = []
    for s in subsets(universe):
        rs = runs(s)
        for comp in compositions(len(rs), max_lines):
            out.append(tuple(render(fam, rs[a:b]) for (a, b) in comp))
        if not s and k["fam"] == "cisco-trunk":
            out.append(("none",))
    _var_cache[ck] = out
    return out


def first_variants(kind, universe):
    """for each subset: the list of all its splittings (used to pick one rotating splitting per pair)"""
    k = KINDS[kind]
    fam = "huawei" if k["fam"] == "huawei" else "cisco"
    ml = min(MAX_LINES, k.get("max_lines", MAX_LINES))
    out = []
    for s in subsets(universe):
        rs = runs(s)
        out.append([tuple(render(fam, rs[a:b]) for (a, b) in comp) for comp in compositions(len(rs), ml)])
    return out


def random_case(kind, rng):
    """S_old = random runs in 1..4094, S_new = S_old with some runs dropped / shrunk / added; random splitting over 1..4
    lines, lines of the new config reuse the old line where the runs in it did not change (the common real-life shape)"""
    k = KINDS[kind]
    fam = "huawei" if k["fam"] == "huawei" else "cisco"
    ml = min(MAX_LINES, k.get("max_lines", MAX_LINES))
    nruns = rng.choice([1, 2, 3, 5, 8, 12, 18, 25, 40])
    s_old = set()
    for _ in range(nruns):
        lo = rng.randint(1, 4094)
        ln = rng.choice([1, 1, 1, 2, 2, 3, 5, 10, 50, 300])
        s_old.update(range(lo, min(4094, lo + ln - 1) + 1))
    s_new = set(s_old)
    mode = rng.randint(0, 5)
    if mode == 0:
        s_new = set()
        for _ in range(rng.choice([1, 2, 5, 12, 20])):
            lo = rng.randint(1, 4094)
            s_new.update(range(lo, min(4094, lo + rng.choice([1, 1, 2, 3, 20]) - 1) + 1))
    else:
        rs = runs(s_old)
        for _ in range(rng.randint(0, 3)):   # drop whole runs
            if rs:
                lo, hi = rng.choice(rs)
                s_new -= set(range(lo, hi + 1))
        for _ in range(rng.randint(0, 3)):   # shrink
            if s_new:
                s_new.discard(rng.choice(sorted(s_new)))
        for _ in range(rng.choice([0, 1, 2, 3, 8, 20])):   # add
            lo = rng.randint(1, 4094)
            s_new.update(range(lo, min(4094, lo + rng.choice([1, 1, 2, 3, 20]) - 1) + 1))
    if rng.random() < 0.03:
        s_old = set()

    def split(s):
        rs = runs(s)
        if not rs:
            if k["fam"] == "cisco-trunk" and rng.random() < 0.5:
                return ("none",)
            return ()
        parts = rng.randint(1, min(ml, len(rs)))
        cuts = sorted(rng.sample(range(1, len(rs)), parts - 1))
        b = [0] + cuts + [len(rs)]
        par = rng.random() < 0.8
        return tuple(render(fam, rs[b[i]:b[i + 1]], pair_as_range=par) for i in range(parts))
    return dict(kind=kind, old_lines=list(split(s_old)), new_lines=list(split(s_new)))


def cases(tier, seed, part, nparts):
    """yields the cases of this part (index i belongs to part i % nparts)"""
    i = -1
    kinds = list(KINDS)
    # (L) lib helpers on all subsets of the 8-element universe
    for s in subsets(UNIVERSE8):
        if not s:
            continue
        for chunk in (0, 2):
            i += 1
            if i % nparts == part:
                yield dict(kind="lib", vlans=s, chunk=chunk)
    # (A) exhaustive splittings: all pairs of subsets of a small universe x all splittings of both sides
    for kind in kinds:
        if tier == "quick":
            small = UNIVERSE5
        else:
            if kind in FULL8:
                continue
            small = UNIVERSE7 if kind in SEVEN else UNIVERSE6
        vs = variants(kind, small, MAX_LINES)
        for o in vs:
            for n in vs:
                i += 1
                if i % nparts == part:
                    yield dict(kind=kind, old_lines=list(o), new_lines=list(n))
    # (B) the 8-element universe, the 65536 pairs of subsets
    for kind in (PRINCIPAL if tier == "quick" else kinds):
        if tier != "quick" and kind in FULL8:    # every splitting of both sides
            vs = variants(kind, UNIVERSE8, MAX_LINES)
            for o in vs:
                for n in vs:
                    i += 1
                    if i % nparts == part:
                        yield dict(kind=kind, old_lines=list(o), new_lines=list(n))
        else:                                    # one splitting per side, rotating with the pair index (capped splittings)
            stride = 4 if tier == "quick" else 2     # every 4th / 2nd pair of the sweep
            fv = first_variants(kind, UNIVERSE8)
            p = 0
            for o in fv:
                for n in fv:
                    p += 1
                    if p % stride:
                        continue
                    i += 1
                    if i % nparts == part:
                        yield dict(kind=kind, old_lines=list(o[(p // stride) % len(o)]), new_lines=list(n[(p // (5 * stride)) % len(n)]))
    # (V) huawei vlan_diff: global `vlan N` blocks next to the `vlan batch` lines
    for c in vd_cases(tier):
        i += 1
        if i % nparts == part:
            yield c
    # (R) seeded random subsets of 1..4094
    nrand = 100 if tier == "quick" else 4000
    for kind in kinds:
        for j in range(nrand):
            i += 1
            if i % nparts == part:
                yield random_case(kind, random.Random("%s/%s/%d" % (seed, kind, j)))
    for j in range(100 if tier == "quick" else 3000):
        i += 1
        if i % nparts == part:
            rng = random.Random("%s/lib/%d" % (seed, j))
            c = random_case("huawei:multi:vlan-batch", rng)
            s = set_of_parts("huawei:multi:vlan-batch", c["old_lines"]) or {rng.randint(1, 4094)}
            yield dict(kind="lib", vlans=sorted(s), chunk=rng.choice([0, 1, 3, 10]))


def run(tier="quick", seed=0, part=0, nparts=1):
    setup_annet()
    ev = 0
    nontrivial = set()
    failures = []
    per_key = {}
    samples = []
    for case in cases(tier, seed, part, nparts):
        ev += 1
        ok, key, text, exp, act = check_case(case)
        if case["kind"] == "lib":
            if len(runs(case["vlans"])) >= 2:
                nontrivial.add(h(case))
        elif case["kind"] == VD:
            # a block of a VLAN that stays in the batch changes, and the batch spans >= 2 lines on some side
            if case["old_blocks"] != case["new_blocks"] and max(len(case["old_lines"]), len(case["new_lines"])) >= 2:
                nontrivial.add(h(case))
        else:
            so = set_of_parts(case["kind"], case["old_lines"])
            sn = set_of_parts(case["kind"], case["new_lines"])
            if so != sn and (so & sn):
                nontrivial.add(h(case))
                if part == 0 and len(samples) < 2 and len(case["old_lines"]) > 1 and ok:
                    samples.append(dict(case=case, commands=act["commands"]))
        if not ok:
            per_key[key] = per_key.get(key, 0) + 1
            if per_key[key] <= 3:
                failures.append(dict(key=key, text=text, case=case, expected=_j(exp), actual=_j(act)))
    if tier == "quick":
        scope = ("(A) all pairs of subsets x every splitting of each run list over 1..4 lines: on {2,3,4,10,11}, all 10 kinds; "
                 "(B) every 4th of the 65536 pairs of subsets of "
                 "{2,3,4,5,10,11,20,30}, one splitting per side rotating with the pair index, for huawei trunk allow-pass and nexus "
                 "swtrunk; ")
        bound = ("subsets of an 8-element universe (1/4 of the pairs), 1..4 lines; every splitting on 5 elements (all kinds); "
                 "100 random sets per kind to 4094")
    else:
        scope = ("(A) all pairs of subsets x every splitting of each run list over 1..4 lines: on {2,3,4,5,10,11,20,30} for huawei trunk "
                 "allow-pass (1277^2), on {2,3,4,10,11,20,30} for nexus swtrunk and vlan batch, on {2,3,4,10,11,20} for the other 7 kinds; "
                 "(B) every 2nd of the 65536 pairs of subsets of the 8-element universe with one splitting per side rotating with the "
                 "pair index, the other 9 kinds; ")
        bound = ("subsets of an 8-element universe, 1..4 lines; every splitting on 8 elements (huawei trunk), 7 (2 kinds), 6 (rest); "
                 "4000 random sets per kind to 4094")
    return dict(evaluations=ev, nontrivial=sorted(nontrivial), failures=failures, samples=samples,
                rule="10 rule kinds + vlan_diff (huawei multi_all x3 [trunk allow-pass, hybrid tagged, hybrid untagged], multi [vlan batch], "
                     "single [stp instance]; cisco+nexus swtrunk, cisco+nexus `vlan` simple, cisco vlan group simple) through the shipped "
                     "rulebooks and make_diff/make_pre/make_patch/cmd_paths (cisco trunk: empty set also as the line `none`). " + scope +
                     "(V) huawei vlan_diff: `vlan batch` over 1..3 lines before and after (all pairs x splittings of subsets of %s) x a VLAN N kept "
                     "in the batch x every (old,new) state {absent, empty, with name} of its global `vlan N` block%s, device set = batch + "
                     "blocks, `undo vlan N` deletes N altogether; " % ("{2,3,10,11}" if tier == "quick" else "{2,3,4,10,11}",
                                                                        "" if tier == "quick" else ", also two such N at once") +
                     "(R) seeded random sets of 1..4094 (1..40 runs, new = old with runs dropped/shrunk/added, or unrelated; 1..4 lines); "
                     "(L) lib collapse/expand on all subsets + random sets. non-trivial = S_old != S_new and S_old & S_new non-empty "
                     "(lib: >= 2 runs); distinct by (kind, old lines, new lines)",
                bound=bound)


def _j(x):
    if isinstance(x, dict):
        return {k: _j(v) for k, v in x.items()}
    if isinstance(x, (set, frozenset)):
        return sorted(x)
    if isinstance(x, (list, tuple)):
        return [_j(v) for v in x]
    return x


def replay(case):
    ok, key, text, exp, act = check_case(case)
    return dict(ok=ok, key=key, text=text, expected=_j(exp), actual=_j(act))
