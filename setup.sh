#!/bin/bash
# Offline setup: a Python 3.12 venv (/verif/.venv) holding z3-solver, cvc5 and jsonschema from the local
# wheelhouse, plus a .pth that makes annet's own dependencies (installed in /venv) importable.
# Idempotent; `--ensure` returns at once when the venv already works.
set -u
cd "$(dirname "$0")"
VENV="$PWD/.venv"
WHEELS=/opt/veriftools/wheels
ok() { "$VENV/bin/python" -c "import z3, cvc5, jsonschema, yaml, mako" >/dev/null 2>&1; }
if [ "${1:-}" = "--ensure" ] && [ -x "$VENV/bin/python" ] && ok; then exit 0; fi
(
  flock 9
  if [ -x "$VENV/bin/python" ] && ok; then exit 0; fi
  rm -rf "$VENV"
  /venv/bin/python -m venv --without-pip "$VENV" >/dev/null 2>&1 || { echo "venv creation failed" >&2; exit 3; }
  SP=$("$VENV/bin/python" -c "import sysconfig; print(sysconfig.get_paths()['purelib'])")
  echo "import site; site.addsitedir('/venv/lib/python3.12/site-packages')" > "$SP/annet_deps.pth"
  PIP_NO_INDEX=1 "$VENV/bin/python" -m pip install --quiet --no-index --no-deps --find-links "$WHEELS" \
      --target "$SP" z3-solver cvc5 jsonschema jsonschema_specifications referencing rpds_py attrs typing_extensions \
      >/dev/null 2>&1 || { echo "pip install from wheelhouse failed" >&2; exit 3; }
  ok || { echo "venv sanity import failed" >&2; exit 3; }
) 9>"$PWD/.setup.lock"
